package rules

import (
	"fmt"
	"go/token"
	"go/types"
	"sort"
	"strings"

	"coapcheck/internal/core"

	"golang.org/x/tools/go/ssa"
)

func init() {
	register(&Property{
		ID:    "C09",
		Title: "Blocking calls always end on cancellation or close; close is clean",
		Level: "other",
		Explain: "Decided: (R1) an inventory of every potentially blocking operation of the module (select, bare channel operation, range over a channel, semaphore acquire, WaitGroup wait, sleep) against a table of wait classes – every client-operation wait selects on the request context AND the connection/server context (or is listed with the holder that bounds it), every receive-path enqueue has the connection-context exit, the reader loop and periodic runner have their stop exits; an unlisted blocking operation fails; " +
			"(R2) close-once guards: each socket/listener Close returns before the underlying Close when the compare-and-swap fails; (R3) the on-close list is read and cleared in one critical section, so each callback is handed out once; " +
			"(R4) every session Run arms Close+shutdown by defer before anything can return; the done signal is completed only by shutdown and shutdown of stream/DTLS sessions is called only from Run's defer; (R5) Session.Close cancels the connection context unconditionally; " +
			"(R6) no Close / shutdown / user callback is invoked while a server-level mutex is held; (R7) client operations build their request on the caller's context (so the W1 waits see the caller's cancellation).",
		NotDecided: "'Bounded delay' as a time, and peers that stall the socket itself when the session does not own it, are not decided.",
		Run:        runC09,
	})
}

// wait classes (frozen after reading; DESIGN.md appendix A.1)
type waitSpec struct {
	class string
	why   string
}

var waitTable = map[string]waitSpec{
	"udp/client.Conn.doInternal":                                             {"W1", "request wait"},
	"tcp/client.Conn.doInternal":                                             {"W1", "request wait"},
	"net/observation.Handler.NewObservation":                                 {"W1", "wait for first notification"},
	"net/client.Client.Ping":                                                 {"W1", "wait for pong"},
	"udp/server.Server.DiscoveryRequest":                                     {"W1n", "collects responses until the request context ends or the server stops (no result channel)"},
	"net/client/limitParallelRequests.LimitParallelRequests.acquireEndpoint": {"W1r", "queued behind the per-endpoint limit: woken by the holder's release, whose own operation is a W1 wait; exits on the request context"},
	"udp/server.Server.conn":                                                 {"W1c", "waits for Serve to publish the listener or the server to stop"},
	"tcp.waitForCSMExchange":                                                 {"W1t", "bounded by a timer"},
	"udp/client.Conn.Process":                                                {"W2", "enqueue of a received datagram"},
	"tcp/client.Conn.pushToReceivedMessageQueue":                             {"W2", "enqueue of a received frame"},
	"net/client.ReceivedMessageReader.loop":                                  {"W4", "reader loop"},
	"pkg/runner/periodic.New$1":                                              {"W5", "periodic runner"},
	"options/config.NewCommon$2$1":                                           {"W5s", "default periodic runner goroutine: sleeps between ticks"},
	"tcp/server.Server.Serve":                                                {"W6", "waits for connection goroutines after closing them"},
	"dtls/server.Server.Serve":                                               {"W6", "waits for connection goroutines after closing them"},
	// semaphore waits bounded by the request context
	"net/blockwise.BlockWise.getCachedReceivedMessage":                 {"S", "reassembly guard, bounded by the message context"},
	"net/client/limitParallelRequests.LimitParallelRequests.Do":        {"S", "total limit, bounded by the request context"},
	"net/client/limitParallelRequests.LimitParallelRequests.DoObserve": {"S", "total limit, bounded by the request context"},
	"udp/client.Conn.acquireOutstandingInteraction":                    {"S", "NSTART, bounded by the request context"},
}

func runC09(e *Env) {
	r := e.R
	r.Rule("C09.R1", "waits", "every blocking operation is classified and has the exits its class requires", 20)
	r.Rule("C09.R2", "paths", "close-once guards on sockets and listeners", 5)
	r.Rule("C09.R3", "locks", "on-close list popped in one critical section", 3)
	r.Rule("C09.R4", "paths", "Run arms Close+shutdown first; done completed only by shutdown; shutdown only from Run", 8)
	r.Rule("C09.R5", "paths", "Session.Close cancels unconditionally", 3)
	r.Rule("C09.R6", "locks", "no Close/shutdown/callback under a server mutex", 1)
	r.Rule("C09.R7", "flows", "client operations use the caller's context", 6)
	r.Rule("C09.R8", "paths", "an NSTART slot is never kept by a failed request (later requests would wait for ever, Close included)", 1)
	if e.want("C09.R8") {
		nstartReleasedOnError(e, "C09.R8")
	}
	if e.want("C09.R1") {
		c09Waits(e)
	}
	if e.want("C09.R2") {
		for _, q := range []string{"net.Conn.Close", "net.UDPConn.Close", "net.TCPListener.Close", "net.TLSListener.Close", "net.DTLSListener.Close"} {
			c09CloseOnce(e, q)
		}
		c09CloseTakesNoIOLock(e)
	}
	sessions := []string{"tcp/client.Session", "udp/server.Session", "dtls/server.Session"}
	if e.want("C09.R3") {
		for _, s := range sessions {
			c09PopOnClose(e, s)
		}
	}
	if e.want("C09.R4") {
		for _, s := range sessions {
			c09Run(e, s)
		}
		c09ShutdownCallers(e)
	}
	if e.want("C09.R5") {
		for _, s := range sessions {
			c09CloseCancels(e, s)
		}
	}
	if e.want("C09.R6") {
		c09NoCallUnderLock(e)
	}
	if e.want("C09.R7") {
		c09CallerContext(e)
	}
}

// c09LaunchedLiteral: f is an unexported function that is only ever started by go statements of one function F, and the wait
// table lists exactly one function literal of F that is not in the program any more; the key of that entry, else "".
func c09LaunchedLiteral(e *Env, fns []*ssa.Function, f *ssa.Function) string {
	if f.Parent() != nil || f.Object() == nil || f.Object().Exported() {
		return ""
	}
	var launcher *ssa.Function
	for _, g := range fns {
		for _, h := range core.WithAnon(g) {
			for _, b := range h.Blocks {
				for _, in := range b.Instrs {
					switch x := in.(type) {
					case *ssa.Go:
						if x.Common().StaticCallee() == f {
							if launcher != nil && launcher != g {
								return ""
							}
							launcher = g
							continue
						}
					}
					for _, op := range in.Operands(nil) {
						if *op == ssa.Value(f) {
							return "" // called or stored elsewhere: not only a goroutine body
						}
					}
				}
			}
		}
	}
	if launcher == nil {
		return ""
	}
	existing := map[string]bool{}
	for _, g := range fns {
		existing[core.FnName(g)] = true
	}
	key := ""
	for k := range waitTable {
		if strings.HasPrefix(k, core.FnName(launcher)+"$") && !existing[k] {
			if key != "" {
				return ""
			}
			key = k
		}
	}
	return key
}

func c09Waits(e *Env) {
	rule := "C09.R1"
	seen := map[string]bool{}
	var fns []*ssa.Function
	for _, f := range e.P.SrcFuncs(false) {
		if strings.HasPrefix(core.FnName(f), "examples/") || strings.HasPrefix(core.FnName(f), "test/") {
			continue
		}
		fns = append(fns, f)
	}
	for _, f := range fns {
		name := core.FnName(f)
		ws := core.WaitsOf(f)
		// deferred wg.Wait
		core.Instrs(f, func(in ssa.Instruction) {
			if d, ok := in.(*ssa.Defer); ok && core.CalleeName(d) == "sync.WaitGroup.Wait" {
				ws = append(ws, core.Wait{Instr: in, Fn: f, Kind: "wg-wait", Blocking: true})
			}
		})
		for _, w := range ws {
			if !w.Blocking {
				e.R.OkTrivial(rule, name+":"+w.Signature(), e.pos(w.Instr), "select with default cannot block")
				continue
			}
			spec, listed := waitTable[name]
			if !listed {
				// a listed goroutine body that became a named unexported function: f is started only by go statements of one
				// function F, and the table lists a function literal of F that no longer exists – the same wait class is
				// required of f (the class test below is structural, so nothing is taken on trust)
				if key := c09LaunchedLiteral(e, fns, f); key != "" {
					spec, listed = waitTable[key], true
					seen[key] = true
					e.R.Notes = append(e.R.Notes, fmt.Sprintf("%s is the goroutine body listed as %s", name, key))
				}
			}
			construct := name + ":" + w.Kind
			if !listed {
				// not in the table (new function, or a listed wait moved by a refactor): shapes that carry their own exits are
				// classified by what they wait on
				auto := ""
				hasQueueSend := false
				for _, c := range w.Cases {
					if c.Dir == types.SendOnly && c.Class == "queue" {
						hasQueueSend = true
					}
				}
				switch {
				case w.Kind == "sem-acquire" && w.HasReqCtx:
					auto = "S: semaphore wait bounded by the request's context"
				case w.Kind == "select" && w.HasReqCtx && w.HasConnCtx:
					auto = "W1: select with a case on the request context and on the connection/server context"
				case w.Kind == "select" && hasQueueSend && w.HasConnCtx:
					auto = "W2: enqueue with a case on the connection context"
				}
				if auto != "" {
					e.R.Ok(rule, construct, e.pos(w.Instr), "classified by its own cases – "+auto+": "+w.Signature())
					continue
				}
			}
			if !listed {
				e.R.Fail(rule, construct, e.pos(w.Instr), "unclassified blocking operation "+w.Signature()+": a new wait must be shown to end on cancellation and on close (add it to the wait table after triage)")
				continue
			}
			seen[name] = true
			ok, need := false, ""
			switch {
			case w.Kind == "sem-acquire":
				ok, need = w.HasReqCtx, "Acquire must take the request's context"
			case spec.class == "W1":
				ok, need = w.Kind == "select" && w.HasReqCtx && w.HasConnCtx && w.HasResult, "select on request context, connection context and the result channel"
			case spec.class == "W1n":
				ok, need = w.Kind == "select" && w.HasReqCtx && w.HasConnCtx, "select on request context and server context"
			case spec.class == "W1r":
				ok, need = w.Kind == "select" && w.HasReqCtx && w.HasResult, "select on request context and the waiter's own channel"
			case spec.class == "W1c":
				ok, need = w.Kind == "select" && w.HasConnCtx && w.HasResult, "select on server context and the started signal"
			case spec.class == "W1t":
				ok, need = w.Kind == "select" && w.HasTimer, "select with a timer case"
			case spec.class == "W2":
				hasSend := false
				for _, c := range w.Cases {
					if c.Dir == types.SendOnly && c.Class == "queue" {
						hasSend = true
					}
				}
				ok, need = w.Kind == "select" && hasSend && w.HasConnCtx, "select on queue send and connection context"
			case spec.class == "W4":
				hasDone, hasQueue := false, false
				for _, c := range w.Cases {
					if c.Class == "done" {
						hasDone = true
					}
					if c.Class == "queue" {
						hasQueue = true
					}
				}
				ok, need = w.Kind == "select" && hasDone && hasQueue && w.HasResult, "select on connection done, the queue and the loop's own stop channel"
			case spec.class == "W5":
				ok, need = w.Kind == "select" && w.HasTimer && w.HasResult, "select on tick and stop"
			case spec.class == "W5s":
				ok, need = w.Kind == "sleep", "sleep of the default runner"
			case spec.class == "W6":
				ok, need = w.Kind == "wg-wait", "deferred WaitGroup wait"
			case spec.class == "S":
				ok, need = false, "only semaphore waits are listed for this function"
			}
			if ok {
				e.R.Ok(rule, construct, e.pos(w.Instr), fmt.Sprintf("class %s (%s): %s", spec.class, spec.why, w.Signature()))
			} else {
				e.R.Fail(rule, construct, e.pos(w.Instr), fmt.Sprintf("class %s requires %s; found %s – the call would not return when the missing context ends", spec.class, need, w.Signature()))
			}
		}
	}
	var missing []string
	for k := range waitTable {
		if !seen[k] {
			missing = append(missing, k)
		}
	}
	sort.Strings(missing)
	if len(missing) > 0 {
		// a listed wait that no longer exists cannot hang anything; the instance floor guards against the inventory going blind
		e.R.OkTrivial(rule, "wait-table:stale", "-", "listed waits not found any more (moved or removed; every wait that exists was classified above): "+strings.Join(missing, ", "))
	}
	// W6: the WaitGroup wait is deferred before the connections are closed in defer order (LIFO: close must be deferred AFTER wait)
	for _, q := range []string{"tcp/server.Server.Serve", "dtls/server.Server.Serve"} {
		f := e.fn(rule, q)
		if f == nil {
			continue
		}
		var waitD, closeD ssa.Instruction
		core.Instrs(f, func(in ssa.Instruction) {
			d, ok := in.(*ssa.Defer)
			if !ok {
				return
			}
			if core.CalleeName(d) == "sync.WaitGroup.Wait" {
				waitD = d
			}
			if sf := core.StaticFn(d); sf != nil && len(core.CallsNamedDeep(sf, "pkg/connections.Connections.Close")) > 0 || core.CalleeName(d) == "pkg/connections.Connections.Close" {
				closeD = d
			}
		})
		ok := waitD != nil && closeD != nil && core.Dominates(waitD, closeD)
		if !ok {
			// the same order written another way (one deferred clean-up function that closes, then waits): decide on the order in
			// which the epilogue executes
			order := epilogueOrder(f, 0)
			ci, wi := -1, -1
			for k, n := range order {
				if n == "pkg/connections.Connections.Close" && ci < 0 {
					ci = k
				}
				if n == "sync.WaitGroup.Wait" && wi < 0 {
					wi = k
				}
			}
			ok = ci >= 0 && wi >= 0 && ci < wi
		}
		e.R.Check(ok, rule, q+":close-before-wait", e.fpos(f), "connections.Close is deferred after wg.Wait, so it runs first and the wait can end", "the server waits for its connection goroutines without closing the connections first")
	}
}

func c09CloseOnce(e *Env, q string) {
	rule := "C09.R2"
	f := e.fn(rule, q)
	if f == nil {
		return
	}
	var cas *ssa.Call
	for _, c := range core.Calls(f, func(n string, _ ssa.CallInstruction) bool { return strings.HasSuffix(n, ".CompareAndSwap") }) {
		cas = c.(*ssa.Call)
	}
	var under ssa.Instruction
	for _, c := range core.Calls(f, func(n string, ci ssa.CallInstruction) bool {
		return strings.HasSuffix(n, ".Close") && core.Arg(ci, 0) != ssa.Value(f.Params[0])
	}) {
		under = c.(ssa.Instruction)
	}
	if cas == nil && under != nil {
		// the same test-and-set spelled Swap(true): the previous value false means "this call closes"
		for _, c := range core.Calls(f, func(n string, _ ssa.CallInstruction) bool { return strings.HasSuffix(n, "atomic.Bool.Swap") }) {
			sw := c.(*ssa.Call)
			if nv, isK := core.ConstBool(core.Arg(sw, 1)); isK && nv {
				_, g := core.GuardedBy(under, func(cond ssa.Value) core.CondMatch {
					if cond == ssa.Value(sw) {
						return core.CondMatch{Match: true, Branch: false}
					}
					return core.CondMatch{}
				})
				e.R.Check(g, rule, q+":close-once", e.fpos(f), "the underlying Close is reachable only when Swap(true) returned false (this call set the flag)", "the underlying Close can run more than once (or concurrently)")
				return
			}
		}
	}
	ok := cas != nil && under != nil
	if ok {
		oldV, _ := core.ConstBool(core.Arg(cas, 1))
		newV, _ := core.ConstBool(core.Arg(cas, 2))
		_, g := core.GuardedBy(under, func(cond ssa.Value) core.CondMatch {
			if cond == ssa.Value(cas) {
				return core.CondMatch{Match: true, Branch: true}
			}
			return core.CondMatch{}
		})
		ok = !oldV && newV && g
	}
	e.R.Check(ok, rule, q+":close-once", e.fpos(f), "the underlying Close is reachable only on the successful CompareAndSwap(false, true) edge", "the underlying Close can run more than once (or concurrently)")
}

// c09CloseTakesNoIOLock: Close of the stream wrapper must not wait for a mutex that writers hold across blocking socket I/O.
func c09CloseTakesNoIOLock(e *Env) {
	rule := "C09.R2"
	for _, typ := range []string{"net.Conn", "net.UDPConn"} {
		ioLocks := map[string]string{}
		for _, f := range methodsOf(e, rule, typ) {
			la := core.AnalyzeLocks(f)
			if len(la.Sites) == 0 {
				continue
			}
			core.Instrs(f, func(in ssa.Instruction) {
				c, ok := in.(*ssa.Call)
				if !ok {
					return
				}
				n := core.CalleeName(c)
				if !(strings.HasSuffix(n, ".Write") || strings.HasSuffix(n, ".Read") || strings.HasSuffix(n, ".WriteTo") || strings.HasSuffix(n, ".WriteMsgUDP") || strings.HasSuffix(n, ".ReadFrom")) {
					return
				}
				for p := range la.At(c) {
					ioLocks[shortType(p)] = core.FnName(f)
				}
			})
		}
		cl := e.fn(rule, typ+".Close")
		if cl == nil {
			continue
		}
		bad := ""
		core.Instrs(cl, func(in ssa.Instruction) {
			if c, ok := in.(ssa.CallInstruction); ok {
				if op, path, is := core.MutexOp(c); is && (op == "Lock" || op == "RLock") {
					if holder, has := ioLocks[shortType(path)]; has {
						bad = fmt.Sprintf("Close waits for %s, which %s holds across a blocking socket operation: with a stalled peer Close never returns and the socket is never closed", path, holder)
					}
				}
			}
		})
		e.R.Check(bad == "", rule, typ+".Close:takes-no-io-lock", e.fpos(cl), fmt.Sprintf("Close acquires none of the %d mutex(es) held across blocking socket I/O", len(ioLocks)), bad)
	}
}

func c09PopOnClose(e *Env, sess string) {
	rule := "C09.R3"
	f := e.fn(rule, sess+".popOnClose")
	if f == nil {
		return
	}
	la := core.AnalyzeLocks(f)
	var load, clear ssa.Instruction
	core.Instrs(f, func(in ssa.Instruction) {
		switch x := in.(type) {
		case *ssa.UnOp:
			if _, fl, ok := core.FieldOf(x.X); ok && fl == "onClose" {
				load = x
			}
		case *ssa.Store:
			if _, fl, ok := core.FieldOf(x.Addr); ok && fl == "onClose" && core.IsNilConst(x.Val) {
				clear = x
			}
		}
	})
	ok := load != nil && clear != nil
	if ok {
		h1, h2 := la.At(load), la.At(clear)
		ok = len(h1) == 1 && len(h2) == 1
		for p, a := range h1 {
			b, has := h2[p]
			if !has || !a.Write || !b.Write {
				ok = false
				continue
			}
			// same acquisition
			for s := range a.Sites {
				if !b.Sites[s] {
					ok = false
				}
			}
		}
	}
	e.R.Check(ok, rule, sess+".popOnClose:one-section", e.fpos(f), "the list is read and set to nil inside one critical section", "the on-close list is not read and cleared atomically: a callback could run twice or be lost")
	// the result is the value read (not a re-read)
	okRet := false
	for _, ret := range core.ReturnsOf(f) {
		if core.Resolve(core.RetVal(ret, 0)) == load.(ssa.Value) || core.RetVal(ret, 0) == load.(ssa.Value) {
			okRet = true
		}
	}
	e.R.Check(okRet, rule, sess+".popOnClose:returns-snapshot", e.fpos(f), "returns the list read under the lock", "does not return the list read under the lock")
}

func c09Run(e *Env, sess string) {
	rule := "C09.R4"
	f := e.fn(rule, sess+".Run")
	if f == nil {
		return
	}
	armsBoth := func(d *ssa.Defer) bool {
		sf := core.StaticFn(d)
		if sf == nil {
			return false
		}
		return len(core.CallsNamedDeep(sf, sess+".Close")) > 0 && len(core.CallsNamedDeep(sf, sess+".shutdown")) > 0
	}
	q := &core.PathQuery{Fn: f, Target: core.IsReturn, DeferStop: armsBoth}
	w := q.Find()
	e.R.Check(w == nil, rule, sess+".Run:defer-first", e.fpos(f), "no return of Run is reachable before the deferred Close+shutdown is armed", "Run can return without Close+shutdown (done never completes, on-close callbacks never run): "+e.trace(w))
	// shutdown completes done (close(done) or doneCancel) by defer and runs the popped callbacks
	if g := e.fn(rule, sess+".shutdown"); g != nil {
		okDone := false
		core.Instrs(g, func(in ssa.Instruction) {
			d, ok := in.(*ssa.Defer)
			if !ok {
				return
			}
			if b, isB := d.Call.Value.(*ssa.Builtin); isB && b.Name() == "close" {
				okDone = true
			}
			if ld, isLd := d.Call.Value.(*ssa.UnOp); isLd {
				if _, fl, isF := core.FieldOf(ld.X); isF && fl == "doneCancel" {
					okDone = true
				} else if isF && c09CancelOfDone(e, sess, fl) {
					okDone = true // the cancel function created together with the context Done() reports (whatever the fields are called)
				}
			}
		})
		okPop := len(core.CallsNamed(g, sess+".popOnClose")) == 1
		e.R.Check(okDone && okPop, rule, sess+".shutdown:completes-done", e.fpos(g), "done is completed by defer and the callbacks come from popOnClose", "shutdown does not complete the done signal by defer or does not take the callbacks from popOnClose")
	}
}

// c09ShutdownCallers: close(done) only in shutdown; shutdown of the stream/DTLS sessions only from Run's defer.
func c09ShutdownCallers(e *Env) {
	rule := "C09.R4"
	for _, sess := range []string{"tcp/client.Session", "dtls/server.Session"} {
		sd := e.fn(rule, sess+".shutdown")
		if sd == nil {
			continue
		}
		var callers []string
		for _, f := range e.P.SrcFuncs(false) {
			for _, c := range core.Calls(f, func(_ string, ci ssa.CallInstruction) bool { return core.SameFunc(core.StaticFn(ci), sd) }) {
				_ = c
				root := f
				for root.Parent() != nil {
					root = root.Parent()
				}
				callers = append(callers, core.FnName(root))
			}
		}
		sort.Strings(callers)
		ok := len(callers) == 1 && callers[0] == sess+".Run"
		e.R.Check(ok, rule, sess+".shutdown:only-from-Run", e.fpos(sd), "shutdown (which closes done) is called only from Run's deferred function", "shutdown is called from "+strings.Join(callers, ", ")+": a second call would close the done channel twice")
	}
	// close(s.done) only inside shutdown
	var closers []string
	for _, f := range e.P.SrcFuncs(false) {
		core.Instrs(f, func(in ssa.Instruction) {
			var cc *ssa.CallCommon
			switch x := in.(type) {
			case *ssa.Call:
				cc = &x.Call
			case *ssa.Defer:
				cc = &x.Call
			default:
				return
			}
			// the done signal kept as a context: its cancel function is the closer
			if ld, isLd := cc.Value.(*ssa.UnOp); isLd && ld.Op == token.MUL && len(cc.Args) == 0 {
				if owner, fl, isF := core.FieldOf(ld.X); isF && strings.HasPrefix(fl, "done") && strings.HasSuffix(owner, ".Session") && core.TypeName(ld.Type()) == "context.CancelFunc" {
					closers = append(closers, core.FnName(f))
				}
			}
			if b, ok := cc.Value.(*ssa.Builtin); ok && b.Name() == "close" && len(cc.Args) == 1 {
				if ld, isLd := cc.Args[0].(*ssa.UnOp); isLd {
					if owner, fl, isF := core.FieldOf(ld.X); isF && fl == "done" && strings.HasSuffix(owner, ".Session") {
						closers = append(closers, core.FnName(f))
					}
				}
			}
		})
	}
	sort.Strings(closers)
	ok := len(closers) >= 1
	for _, c := range closers {
		if !strings.HasSuffix(c, ".shutdown") {
			ok = false
		}
	}
	e.R.Check(ok, rule, "Session.done:closed-only-in-shutdown", "-", "the done channel is closed only in shutdown: "+strings.Join(closers, ", "), "the done channel is closed outside shutdown: "+strings.Join(closers, ", "))
}

func c09CloseCancels(e *Env, sess string) {
	rule := "C09.R5"
	f := e.fn(rule, sess+".Close")
	if f == nil {
		return
	}
	var cancel ssa.Instruction
	core.Instrs(f, func(in ssa.Instruction) {
		c, ok := in.(*ssa.Call)
		if !ok {
			return
		}
		if ld, isLd := c.Call.Value.(*ssa.UnOp); isLd {
			if _, fl, isF := core.FieldOf(ld.X); isF && fl == "cancel" {
				cancel = c
			}
		}
	})
	ok := cancel != nil && cancel.Block() == f.Blocks[0]
	e.R.Check(ok, rule, sess+".Close:cancels", e.fpos(f), "the connection context is cancelled in the entry block of Close (unconditionally)", "Close does not cancel the connection context unconditionally: waits on the connection context would not wake up")
}

// c09NoCallUnderLock: in the server packages no Close/shutdown/user callback runs with a server-level mutex held.
func c09NoCallUnderLock(e *Env) {
	rule := "C09.R6"
	n, bad := 0, 0
	for _, f := range e.P.SrcFuncs(false) {
		name := core.FnName(f)
		if !(strings.HasPrefix(name, "udp/server.") || strings.HasPrefix(name, "tcp/server.") || strings.HasPrefix(name, "dtls/server.") || strings.HasPrefix(name, "pkg/connections.")) {
			continue
		}
		la := core.AnalyzeLocks(f)
		if len(la.Sites) == 0 {
			continue
		}
		core.Instrs(f, func(in ssa.Instruction) {
			c, ok := in.(*ssa.Call)
			if !ok {
				return
			}
			cn := core.CalleeName(c)
			risky := strings.HasSuffix(cn, ".Close") || strings.HasSuffix(cn, ".shutdown") || strings.HasSuffix(cn, ".closeConnection") || strings.HasSuffix(cn, ".closeSessions")
			if cn == "" {
				// dynamic call of a user callback: a function-typed parameter, an element of an on-close list, or one of the
				// callback fields (OnNewConn, Handler, onClose). Factories such as CreateInactivityMonitor only build objects.
				switch v := core.Resolve(c.Call.Value).(type) {
				case *ssa.Parameter:
					risky = true
				case *ssa.UnOp:
					if _, fl, isF := core.FieldOf(v.X); isF && (fl == "OnNewConn" || fl == "Handler" || fl == "handler" || fl == "onClose") {
						risky = true
					}
					if ia, isIdx := v.X.(*ssa.IndexAddr); isIdx {
						if ld, isLd := ia.X.(*ssa.UnOp); isLd {
							if _, fl, isF := core.FieldOf(ld.X); isF && fl == "onClose" {
								risky = true
							}
						}
					}
				case *ssa.Extract, *ssa.Next:
					risky = true // element of a ranged collection of callbacks
				}
			}
			if !risky {
				return
			}
			n++
			held := la.At(c)
			if len(held) > 0 {
				bad++
				e.R.Fail(rule, name+":call-under-lock", e.pos(c), fmt.Sprintf("%s is called while %s is held: a callback or Close that re-enters the server would deadlock", describeCall(c), held))
			}
		})
	}
	if bad == 0 {
		e.R.Ok(rule, "servers:no-close-or-callback-under-lock", "-", fmt.Sprintf("%d Close/shutdown/callback invocations in functions that take a server mutex, none with the mutex held", n))
	}
}

func describeCall(c *ssa.Call) string {
	if n := core.CalleeName(c); n != "" {
		return n
	}
	return "a function value (" + c.Call.Value.Name() + ")"
}

// c09CallerContext: operations that take a ctx build their request message on it.
func c09CallerContext(e *Env) {
	rule := "C09.R7"
	check := func(q string) {
		f := e.fn(rule, q)
		if f == nil {
			return
		}
		var ctx *ssa.Parameter
		for _, p := range f.Params {
			if core.TypeName(p.Type()) == "context.Context" {
				ctx = p
			}
		}
		if ctx == nil {
			e.R.Undecided(rule, q+":ctx", e.fpos(f), "no context parameter")
			return
		}
		calls := core.Calls(f, func(n string, _ ssa.CallInstruction) bool { return strings.HasSuffix(n, ".AcquireMessage") })
		ok := len(calls) >= 1
		for _, c := range calls {
			// (through a shared builder helper: the argument this operation passes to it)
			for _, v := range core.ResolveIn(f, core.Arg(c, 1)) {
				if v != ssa.Value(ctx) {
					ok = false
				}
			}
		}
		e.R.Check(ok, rule, q+":request-on-caller-ctx", e.fpos(f), "the request message is acquired with the caller's context", "the request is built on a context other than the caller's: cancelling the caller's context would not end the operation")
	}
	for _, q := range []string{"net/observation.Observation.Cancel", "net/client.Client.NewGetRequest", "net/client.Client.NewPostRequest", "net/client.Client.NewPutRequest", "net/client.Client.NewDeleteRequest"} {
		check(q)
	}
	// Ping waits on the ctx parameter itself
	if f := e.fn(rule, "net/client.Client.Ping"); f != nil {
		ok := false
		for _, w := range core.WaitsOf(f) {
			if w.Blocking && w.HasReqCtx {
				ok = true
			}
		}
		e.R.Check(ok, rule, "net/client.Client.Ping:waits-on-caller-ctx", e.fpos(f), "Ping's wait includes the caller's context", "Ping does not wait on the caller's context")
	}
}

// c09CancelOfDone: the field named cancelField holds the cancel function of the very context whose Done() the session's Done()
// returns: some function of the package stores both results of one context.WithCancel call into sibling fields of one struct, the
// context into the field Done() reads and the cancel function into cancelField.
func c09CancelOfDone(e *Env, sess, cancelField string) bool {
	done := e.P.Func(sess + ".Done")
	if done == nil {
		return false
	}
	ctxField := ""
	for _, ret := range core.ReturnsOf(done) {
		if c, ok := core.Resolve(core.RetVal(ret, 0)).(*ssa.Call); ok && c.Call.IsInvoke() && c.Call.Method.Name() == "Done" {
			v := core.Unwrap(c.Call.Value)
			switch x := v.(type) {
			case *ssa.UnOp:
				_, ctxField, _ = core.FieldOf(x.X)
			case *ssa.Field:
				_, ctxField, _ = core.FieldOf(x)
			}
		}
	}
	if ctxField == "" {
		return false
	}
	pkg := done.Pkg
	for _, f := range e.P.AllSrcFuncs(false) {
		if f.Pkg != pkg {
			continue
		}
		for _, c := range core.CallsNamed(f, "context.WithCancel") {
			var ctxBase, cancelBase ssa.Value
			for _, ref := range core.Referrers(c.(ssa.Value)) {
				ex, isEx := ref.(*ssa.Extract)
				if !isEx {
					continue
				}
				for _, u := range core.Referrers(ex) {
					st, isSt := u.(*ssa.Store)
					if !isSt || st.Val != ssa.Value(ex) {
						continue
					}
					fa, isFA := st.Addr.(*ssa.FieldAddr)
					if !isFA {
						continue
					}
					_, fl, _ := core.FieldOf(fa)
					if ex.Index == 0 && fl == ctxField {
						ctxBase = fa.X
					}
					if ex.Index == 1 && fl == cancelField {
						cancelBase = fa.X
					}
				}
			}
			if ctxBase != nil && ctxBase == cancelBase {
				return true
			}
		}
	}
	return false
}

// epilogueOrder lists, in execution order, the calls the deferred part of f performs when f returns: deferred calls run in reverse
// order of registration; a deferred function of the module contributes its own direct calls in program order followed by its own
// epilogue.
func epilogueOrder(f *ssa.Function, depth int) []string {
	if depth > 4 {
		return nil
	}
	var defers []*ssa.Defer
	core.InstrsOwn(f, func(in ssa.Instruction) {
		if d, ok := in.(*ssa.Defer); ok {
			defers = append(defers, d)
		}
	})
	var out []string
	for i := len(defers) - 1; i >= 0; i-- {
		d := defers[i]
		body := core.StaticFn(d)
		if body != nil && len(body.Blocks) > 0 && (body.Parent() != nil || core.IsAbsorbed(body)) {
			core.InstrsOwn(body, func(in ssa.Instruction) {
				if c, ok := in.(*ssa.Call); ok {
					if n := core.CalleeName(c); n != "" {
						out = append(out, n)
					}
				}
			})
			out = append(out, epilogueOrder(body, depth+1)...)
			continue
		}
		if n := core.CalleeName(d); n != "" {
			out = append(out, n)
		}
	}
	return out
}

package rules

import (
	"fmt"
	"go/token"
	"math/big"
	"strings"

	"coapcheck/internal/core"

	"golang.org/x/tools/go/ssa"
)

func init() {
	register(&Property{
		ID:    "C04",
		Title: "Block-wise transfer delivers the exact body exactly once, or fails",
		Level: "other",
		Explain: "Decided (structural necessary conditions in net/blockwise): (R1) append-only reassembly – a block's payload is copied only on the `offset == bytes already held` edge, the offset is NUM·size(SZX), and the size of what is held is read after any ETag-triggered truncation; " +
			"(R2) single hand-off – the reassembled message is passed on only on the last-block edge after a successful copy and after its cache entry was deleted; (R3) failure cleanup – every error return after the entry exists deletes it (error-cell discipline) and Handle answers errors with 4.08; " +
			"(R4) the per-token reassembly guard is released on every exit; (R5) block-size negotiation returns the smaller side (abstract interpretation on ordering cells) and BERT buffers are ⌊max/1024⌋·1024; " +
			"(R6) the M flag of every outgoing block is computed from the real end of the body, never a constant; (R7) a transfer starts at offset 0: the 'skip the acknowledged block' adjustment is applied only when the block option acknowledges a block, and the start paths pass false; offsets are NUM·size; " +
			"(R8) both caches are keyed by the token hash of the message at hand; (R9) the next block requested for a download is computed from the bytes already held, not by counting.",
		NotDecided: "Byte-exact delivery over all sizes / SZX pairs / fault choices, timeouts and mixing of concurrent transfers beyond key separation need execution and are not decided.",
		Run:        runC04,
	})
}

const bw = "net/blockwise.BlockWise"

func runC04(e *Env) {
	r := e.R
	r.Rule("C04.R1", "paths+flows", "append-only reassembly at the block's own offset; size read after truncation", 2)
	r.Rule("C04.R2", "paths", "single hand-off of the reassembled message", 1)
	r.Rule("C04.R3", "paths", "failure cleanup", 3)
	r.Rule("C04.R4", "paths", "reassembly guard released on every exit", 3)
	r.Rule("C04.R5", "absint", "negotiated size is the minimum", 4)
	r.Rule("C04.R6", "flows", "M flag from the real end of the body", 2)
	r.Rule("C04.R7", "paths+flows", "transfers start at offset 0", 3)
	r.Rule("C04.R8", "flows", "caches keyed by the token hash", 6)
	r.Rule("C04.R9", "flows", "next download block from bytes held", 1)
	r.Rule("C04.R10", "flows", "messages built to continue a transfer inherit the complete option list of their template; the block size and timeout settings reach the engine", 9)
	r.Rule("C04.R11", "paths", "an expired (abandoned) transfer's state is never matched by a new exchange", 4)
	r.Rule("C04.R12", "flows", "a block's bytes are owned by its message (no recycled buffer); the reassembly message's options are set once, at creation", 2)
	r.Rule("C04.R13", "paths", "the reassembly step disposes of every message it accepts: handed on or answered; a block with M = 1 or of a transfer in progress is never handed on alone; the reassembled body is rewound; the request for the next block is complete", 5)
	if e.want("C04.R13") {
		c04Dispositions(e, "C04.R13")
	}
	prm := e.fn("C04.R1", bw+".processReceivedMessage")
	if prm != nil {
		c04Reassembly(e, prm)
	}
	if e.want("C04.R1") {
		if f := e.fn("C04.R1", bw+".getPayloadFromCachedReceivedMessage"); f != nil {
			sizes := core.CallsNamed(f, "message/pool.Message.BodySize")
			var trunc []ssa.Instruction
			core.Instrs(f, func(in ssa.Instruction) {
				if c, ok := in.(*ssa.Call); ok && strings.HasSuffix(core.CalleeName(c), ".Truncate") {
					trunc = append(trunc, c)
				}
			})
			ok := len(sizes) == 1 && len(trunc) >= 1
			if ok {
				for _, t := range trunc {
					if reachableFrom(f, sizes[0].(ssa.Instruction), t) {
						ok = false
					}
				}
				// and the returned size is that call's result
				okRet := false
				for _, ret := range core.ReturnsOf(f) {
					if ex, isEx := core.Resolve(core.RetVal(ret, 1)).(*ssa.Extract); isEx && ex.Tuple == sizes[0].(ssa.Value) {
						okRet = true
					}
				}
				ok = ok && okRet
			}
			e.R.Check(ok, "C04.R1", bw+".getPayloadFromCachedReceivedMessage:size-after-truncate", e.fpos(f), "the size of the bytes held is read after the ETag-changed truncation and returned", "the size of the held body is read before the body may be truncated (ETag change): a stale size lets a block be written past a gap of zero bytes")
		}
	}
	if e.want("C04.R1") {
		c04CopyAtOffset(e, "C04.R1")
		c04ETagRestart(e, "C04.R1")
	}
	if e.want("C04.R3") {
		checkErrCell(e, "C04.R3", bw+".processReceivedMessage")
		if f := e.fn("C04.R3", bw+".Handle"); f != nil {
			n, ok := 0, true
			for _, i := range core.IfsOf(f) {
				ev, nilBranch, is := core.ErrNilEdge(i)
				if !is {
					continue
				}
				ex, isEx := core.Resolve(ev).(*ssa.Extract)
				_ = ex
				var src *ssa.Call
				if isEx {
					src, _ = ex.Tuple.(*ssa.Call)
				} else if c, isC := core.Resolve(ev).(*ssa.Call); isC {
					src = c
				}
				if src == nil || core.CalleeName(src) != bw+".handleReceivedMessage" {
					continue
				}
				n++
				k := 0
				if nilBranch {
					k = 1
				}
				blk := i.Block().Succs[k]
				found := false
				for _, in := range blk.Instrs {
					if c, isC := in.(*ssa.Call); isC && core.CalleeName(c) == bw+".sendEntityIncomplete" {
						found = true
					}
				}
				if !found {
					ok = false
				}
			}
			e.R.Check(ok && n >= 1, "C04.R3", bw+".Handle:errors-answered-4.08", e.fpos(f), fmt.Sprintf("all %d reassembly error edges answer with Request Entity Incomplete", n), "a reassembly error is not answered with 4.08")
		}
		if f := e.fn("C04.R3", bw+".sendEntityIncomplete"); f != nil {
			ok := false
			for _, c := range core.CallsNamed(f, "message/pool.Message.SetCode") {
				if k, isK := core.ConstInt(core.Arg(c, 1)); isK && k == 136 {
					ok = true
				}
			}
			e.R.Check(ok, "C04.R3", bw+".sendEntityIncomplete:code-4.08", e.fpos(f), "the error response carries 4.08 (136)", "the error response is not 4.08")
		}
	}
	if e.want("C04.R4") {
		c04Guard(e, prm)
	}
	if e.want("C04.R5") {
		c04Clamp(e)
	}
	if e.want("C04.R6") {
		c04MoreFlag(e)
		c04MorePolarity(e, "C04.R6")
	}
	if e.want("C04.R7") {
		c04StartOffset(e)
	}
	if e.want("C04.R8") {
		c04Keys(e)
	}
	if e.want("C04.R10") {
		c04InheritOptions(e)
		c04InheritHeader(e, "C04.R10")
		c04BlockOptionSet(e, "C04.R10")
		for _, fn := range []string{"udp/server.Server.getOrCreateConn", "dtls/server.Server.createConn", "tcp/server.Server.createConn"} {
			checkConfigCopy(e, "C04.R10", fn, []string{"BlockwiseSZX"})
		}
	}
	if e.want("C04.R12") {
		bodyNotFromPool(e, "C04.R12")
		reassemblyHeaderSetOnce(e, "C04.R12")
	}
	if e.want("C04.R11") {
		// same obligation as C14.R5: Cache.LoadOrStore / Load hide an entry whose deadline has passed
		sub := *e
		checkExpiryPredicateAs(&sub, "C04.R11")
	}
}

// c04InheritOptions: each function that builds a message for the next step of a transfer (next block request, continuation of a
// response, re-issued GET for a block-wise notification) copies the whole option list of its template with ResetOptionsTo and only
// then edits the block options. A filtered copy makes later blocks address another representation than block 0.
func c04InheritOptions(e *Env) {
	rule := "C04.R10"
	for _, fn := range []string{
		"net/blockwise.BlockWise.cloneMessage", "net/blockwise.newWriteRequestResponse", "net/blockwise.BlockWise.createSendingMessage",
		"net/blockwise.BlockWise.getSentRequest", "net/blockwise.BlockWise.getCachedReceivedMessage", "net/blockwise.BlockWise.processReceivedMessage",
		"net/observation.Handler.GetObservationRequest", "udp/server.Server.getOrCreateConn",
	} {
		f := e.fn(rule, fn)
		if f == nil {
			continue
		}
		var calls []ssa.CallInstruction
		seenCall := map[ssa.CallInstruction]bool{}
		for _, g := range core.WithAnon(f) { // the function, its literals, and those of the helpers analysed as part of them
			for _, c := range core.Calls(g, func(n string, _ ssa.CallInstruction) bool { return strings.HasSuffix(n, "pool.Message.ResetOptionsTo") }) {
				if !seenCall[c] {
					seenCall[c] = true
					calls = append(calls, c)
				}
			}
		}
		ok := false
		why := "no ResetOptionsTo(template options) any more: the options of the template are copied selectively or not at all"
		if delegatesToClone(f) && !strings.HasSuffix(fn, ".cloneMessage") {
			ok = true // built by the clone helper, which is held to the same obligation
		}
		for _, c := range calls {
			arg := core.Resolve(core.Unwrap(core.Arg(c, 1)))
			switch x := arg.(type) {
			case *ssa.Call:
				if strings.HasSuffix(core.CalleeName(x), "pool.Message.Options") {
					ok = true
				}
			case *ssa.UnOp:
				if _, fl, isF := core.FieldOf(x.X); isF && fl == "Options" {
					ok = true
				}
			default:
				why = "ResetOptionsTo is given something other than the template's complete option list"
			}
		}
		e.R.Check(ok, rule, fn+":inherits-options", e.fpos(f), "ResetOptionsTo(<template>.Options())", why)
	}
}

func c04Reassembly(e *Env, f *ssa.Function) {
	copies := core.CallsNamed(f, "net/blockwise.copyToPayloadFromOffset")
	nexts := []ssa.Instruction{}
	var nextParam *ssa.Parameter
	for _, p := range f.Params {
		if p.Name() == "next" {
			nextParam = p
		}
	}
	// the hand-off of the reassembled message: next(w, cachedReceivedMessage) where arg 2 is not the received message r
	var rParam ssa.Value
	if len(f.Params) > 2 {
		rParam = f.Params[2]
	}
	core.Instrs(f, func(in ssa.Instruction) {
		c, ok := in.(*ssa.Call)
		if !ok || nextParam == nil || core.Resolve(c.Call.Value) != ssa.Value(nextParam) {
			return
		}
		if len(c.Call.Args) == 2 && core.Resolve(c.Call.Args[1]) != rParam {
			nexts = append(nexts, c)
		}
	})
	if e.want("C04.R1") {
		ok := len(copies) == 1
		var eqIf *ssa.If
		if ok {
			cp := copies[0].(*ssa.Call)
			off := core.Arg(cp, 2)
			for _, i := range core.IfsOf(f) {
				cmp, is := core.EdgeFacts(i, true)
				if !is || cmp.Op != token.EQL {
					continue
				}
				if (core.Resolve(cmp.X) == core.Resolve(off) || core.Resolve(cmp.Y) == core.Resolve(off)) && core.OnlyViaEdge(i, true, cp) {
					eqIf = i
				}
			}
			ok = eqIf != nil
			// off = num * szx.Size()
			if m, isM := core.Resolve(off).(*ssa.BinOp); !isM || m.Op != token.MUL {
				ok = false
			} else {
				isSize := func(v ssa.Value) bool {
					c, isC := core.Resolve(v).(*ssa.Call)
					return isC && core.CalleeName(c) == "net/blockwise.SZX.Size"
				}
				if !isSize(m.X) && !isSize(m.Y) {
					ok = false
				}
			}
		}
		e.R.Check(ok, "C04.R1", bw+".processReceivedMessage:copy-only-at-own-offset", e.fpos(f), "the block is copied only on the `NUM·size == bytes already held` edge, at that offset", "a block can be written at an offset other than the end of the bytes already held (duplicates / stale blocks would corrupt the body)")
	}
	if e.want("C04.R2") {
		ok := len(nexts) == 1 && len(copies) == 1
		if ok {
			nx := nexts[0]
			ok = core.Dominates(copies[0].(ssa.Instruction), nx)
			// on the !more edge
			_, g := core.GuardedBy(nx, func(cond ssa.Value) core.CondMatch {
				if ex, isEx := core.Resolve(cond).(*ssa.Extract); isEx {
					if c, isC := ex.Tuple.(*ssa.Call); isC && core.CalleeName(c) == "net/blockwise.DecodeBlockOption" && ex.Index == 2 {
						return core.CondMatch{Match: true, Branch: false}
					}
				}
				return core.CondMatch{}
			})
			ok = ok && g
			// after the entry was deleted
			del := false
			for _, d := range core.CallsNamed(f, "pkg/sync.Map.Delete") {
				if strings.HasSuffix(tableOf(d), ".receivingMessagesCache") && core.Dominates(d.(ssa.Instruction), nx) {
					del = true
				}
			}
			ok = ok && del
			// the copy succeeded: the hand-off is on the err == nil edge of the copy
			okErr := false
			for _, i := range core.IfsOf(f) {
				ev, nilBranch, is := core.ErrNilEdge(i)
				if !is {
					continue
				}
				src := errSource(ev)
				if src == copies[0].(*ssa.Call) && core.OnlyViaEdge(i, nilBranch, nx) {
					okErr = true
				}
			}
			ok = ok && okErr
		}
		e.R.Check(ok, "C04.R2", bw+".processReceivedMessage:single-hand-off", e.fpos(f), "the reassembled message is handed on exactly at one site: last block, copy succeeded, cache entry deleted first", "the reassembled body can be handed to the application before it is complete, after a failed copy, or while still cached (a replayed last block would deliver it again)")
	}
	if e.want("C04.R9") {
		// num passed to EncodeBlockOption: on the Block2 arm it is payloadSize / szx.Size()
		ok, why := false, "no block number computation from the bytes held"
		for _, c := range core.CallsNamed(f, "net/blockwise.EncodeBlockOption") {
			for _, leaf := range phiLeaves(core.Resolve(core.Arg(c, 1))) {
				if b, isB := leaf.(*ssa.BinOp); isB {
					switch b.Op {
					case token.QUO:
						if sc, isC := core.Resolve(b.Y).(*ssa.Call); isC && core.CalleeName(sc) == "net/blockwise.SZX.Size" {
							ok = true
						}
					case token.ADD, token.SUB:
						why = "the next block number is obtained by counting (" + b.Op.String() + " at " + e.pos(b) + "), not from the bytes already held: with multi-unit (BERT) blocks every second request overlaps"
						ok = false
						e.R.Fail("C04.R9", bw+".processReceivedMessage:next-block-from-bytes-held", e.fpos(f), why)
						return
					}
				}
			}
		}
		e.R.Check(ok, "C04.R9", bw+".processReceivedMessage:next-block-from-bytes-held", e.fpos(f), "the next Block2 number is (bytes held) / size(SZX)", why)
	}
}

// errSource: the call whose error result v is (through a cell or directly).
func errSource(v ssa.Value) *ssa.Call {
	r := core.Resolve(v)
	if ex, ok := r.(*ssa.Extract); ok {
		if c, ok := ex.Tuple.(*ssa.Call); ok {
			return c
		}
	}
	if c, ok := r.(*ssa.Call); ok {
		return c
	}
	if ld, ok := v.(*ssa.UnOp); ok && ld.Op == token.MUL {
		if a := core.CellOf(ld.X); a != nil {
			// the last store to the cell in the load's block
			var last ssa.Value
			for _, in := range ld.Block().Instrs {
				if in == ssa.Instruction(ld) {
					break
				}
				if st, ok := in.(*ssa.Store); ok && core.CellOf(st.Addr) == a {
					last = st.Val
				}
			}
			if last != nil {
				return errSource(last)
			}
		}
	}
	return nil
}

func c04Guard(e *Env, prm *ssa.Function) {
	rule := "C04.R4"
	if f := e.fn(rule, bw+".getCachedReceivedMessage"); f != nil {
		// every successful Acquire is either released on the error exits or handed out in the returned close function
		acqs := guardAcquisitions(f)
		ok := len(acqs) >= 2
		for _, ret := range core.ReturnsOf(f) {
			if !core.IsNilConst(core.RetVal(ret, 2)) {
				continue
			}
			// success return: result 1 is a function (closure releasing / closeFn)
			if core.IsNilConst(core.RetVal(ret, 1)) {
				ok = false
			}
		}
		e.R.Check(ok, rule, bw+".getCachedReceivedMessage:returns-release", e.fpos(f), fmt.Sprintf("%d guard acquisitions; every successful return hands out a release function", len(acqs)), "a successful return does not hand out the guard's release function")
	}
	c04GuardDiscipline(e, rule)
	if prm != nil {
		var call *ssa.Call
		for _, c := range core.CallsNamed(prm, bw+".getCachedReceivedMessage") {
			call = c.(*ssa.Call)
		}
		if call == nil {
			e.R.Fail(rule, bw+".processReceivedMessage:guard", e.fpos(prm), "the reassembly guard is not taken")
			return
		}
		var closeV *ssa.Extract
		for _, ref := range core.Referrers(call) {
			if ex, ok := ref.(*ssa.Extract); ok && ex.Index == 1 {
				closeV = ex
			}
		}
		q := &core.PathQuery{Fn: prm, From: call, Target: core.IsReturn,
			Stop: func(in ssa.Instruction) bool {
				c, ok := in.(*ssa.Call)
				return ok && closeV != nil && core.Resolve(c.Call.Value) == ssa.Value(closeV)
			},
			DeferStop: func(d *ssa.Defer) bool { return closeV != nil && core.Resolve(d.Call.Value) == ssa.Value(closeV) },
			EdgeOK: func(i *ssa.If, branch bool) bool {
				ev, nilBranch, ok := core.ErrNilEdge(i)
				if ok && errSource(ev) == call {
					return branch == nilBranch
				}
				return true
			}}
		w := q.Find()
		e.R.Check(w == nil && closeV != nil, rule, bw+".processReceivedMessage:guard-released", e.pos(call), "after the guard was taken every exit runs its release function (deferred)", "an exit keeps the per-token reassembly guard: "+e.trace(w))
	}
}

func c04Clamp(e *Env) {
	rule := "C04.R5"
	f := e.P.Func("net/blockwise.getSzx")
	if f == nil {
		// the helper is gone: the clamp is then the builtin min at its former call sites (decided by clamped-exponent-everywhere)
		e.R.OkTrivial(rule, "net/blockwise.getSzx:inlined", "-", "no getSzx helper: its call sites use the builtin min (C04.R15)")
	}
	if f != nil && len(f.Params) == 2 {
		for _, d := range []int64{1, 3, 7} {
			for _, order := range []string{"a<b", "a>b"} {
				s := core.SymInt("s", 8, false, big.NewInt(0), big.NewInt(7-d), 0)
				sd, _ := core.AddConst(s, d)
				a, b, want := s, sd, "s"
				if order == "a>b" {
					a, b = sd, s
				}
				it := core.NewInterp(e.P)
				outs := it.Run(f, []*core.AVal{a, b}, nil)
				ok := len(outs) > 0
				for _, o := range outs {
					if o.Abort || len(o.Ret) != 1 || o.Ret[0].Lin == nil || o.Ret[0].Lin.Sym != want || o.Ret[0].Lin.B.Sign() != 0 {
						ok = false
					}
				}
				e.R.Check(ok, rule, fmt.Sprintf("net/blockwise.getSzx:%s d=%d", order, d), e.fpos(f), "returns the smaller argument for every s", "does not return the smaller of the two sizes: "+core.SummarizeOutcomes(outs))
			}
		}
		it := core.NewInterp(e.P)
		s := core.SymInt("s", 8, false, big.NewInt(0), big.NewInt(7), 0)
		outs := it.Run(f, []*core.AVal{s, s}, nil)
		ok := len(outs) > 0
		for _, o := range outs {
			if o.Abort || len(o.Ret) != 1 || o.Ret[0].Lin == nil || o.Ret[0].Lin.Sym != "s" {
				ok = false
			}
		}
		e.R.Check(ok, rule, "net/blockwise.getSzx:a=b", e.fpos(f), "equal sizes are kept", core.SummarizeOutcomes(outs))
	}
	// fitSZX: returns maxSZX on any error and min(maxSZX, decoded) otherwise: structural
	if g := e.fn(rule, "net/blockwise.fitSZX"); g != nil && len(g.Params) == 3 {
		max := g.Params[2]
		ok, n := true, 0
		var cmpIf *ssa.If
		for _, i := range core.IfsOf(g) {
			cmp, is := core.EdgeFacts(i, true)
			if is && cmp.Op == token.GTR && core.Unwrap(cmp.X) == ssa.Value(max) {
				cmpIf = i
			}
		}
		viaMin := false
		for _, ret := range core.ReturnsOf(g) {
			n++
			v := core.Resolve(core.RetVal(ret, 0))
			if c, isC := v.(*ssa.Call); isC && (core.CalleeName(c) == "net/blockwise.getSzx" || core.CalleeName(c) == "builtin.min") && len(c.Call.Args) == 2 &&
				(core.Resolve(c.Call.Args[0]) == ssa.Value(max) || core.Resolve(c.Call.Args[1]) == ssa.Value(max)) {
				viaMin = true // min(ours, peer's) through the helper verified above
				continue
			}
			switch {
			case v == ssa.Value(max):
				// fine on error edges and on the max ≤ szx edge
				if cmpIf != nil && core.OnlyViaEdge(cmpIf, true, ret) {
					ok = false
				}
			default:
				// the decoded szx: only on the maxSZX > szx edge
				if cmpIf == nil || !core.OnlyViaEdge(cmpIf, true, ret) {
					ok = false
				}
			}
		}
		e.R.Check(ok && (cmpIf != nil || viaMin) && (n >= 3 || (viaMin && n >= 2)), rule, "net/blockwise.fitSZX:min", e.fpos(g), "returns the peer's size only when it is smaller than ours, else ours", "negotiation does not clamp to the smaller side")
	}
	// BERT buffer sizing shared with C19.P8
	table := checkSzxTableQuiet(e)
	sub := *e
	rep := core.NewReport("tmp", e.Tier, "other")
	sub.R = rep
	checkBufferSize(&sub, table)
	for _, o := range rep.Obls {
		key := strings.TrimPrefix(o.Key, "C19.P8:")
		if o.Status == core.Discharged {
			e.R.Ok(rule, key, o.Pos, o.Detail)
		} else {
			e.R.Fail(rule, key, o.Pos, o.Detail)
		}
	}
}

func checkSzxTableQuiet(e *Env) map[int64]int64 {
	sub := *e
	sub.R = core.NewReport("tmp", e.Tier, "other")
	return checkSzxTable(&sub)
}

func c04MoreFlag(e *Env) {
	rule := "C04.R6"
	for _, q := range []string{bw + ".Do", bw + ".createSendingMessage"} {
		f := e.fn(rule, q)
		if f == nil {
			continue
		}
		ok, n := true, 0
		for _, c := range core.CallsNamed(f, "net/blockwise.EncodeBlockOption") {
			n++
			more := core.Arg(c, 2)
			dep := false
			for _, leaf := range phiLeaves(core.Resolve(more)) {
				if _, isK := core.ConstBool(leaf); isK {
					continue
				}
				if b, isB := leaf.(*ssa.BinOp); isB && dependsOnBodySize(b, 0) {
					dep = true
				}
				if ld, isLd := leaf.(*ssa.UnOp); isLd {
					// a `more` variable: every store must be a constant chosen under a size comparison or a comparison itself
					if a := core.CellOf(ld.X); a != nil {
						for _, st := range core.StoresToCell(a) {
							if b, isB := st.Val.(*ssa.BinOp); isB && dependsOnBodySize(b, 0) {
								dep = true
							}
							if _, isK := core.ConstBool(st.Val); isK {
								if _, g := core.GuardedBy(st, func(cond ssa.Value) core.CondMatch {
									if b, isB := cond.(*ssa.BinOp); isB && dependsOnBodySize(b, 0) {
										return core.CondMatch{Match: true, Branch: true}
									}
									return core.CondMatch{}
								}); g {
									dep = true
								}
							}
						}
					}
				}
			}
			// constant-only phi: the constants must be selected by a size comparison
			if !dep {
				if ph, isPhi := core.Resolve(more).(*ssa.Phi); isPhi {
					for _, i := range core.IfsOf(f) {
						if b, isB := i.Cond.(*ssa.BinOp); isB && dependsOnBodySize(b, 0) && i.Block().Dominates(ph.Block()) {
							dep = true
						}
					}
				}
			}
			if !dep {
				ok = false
			}
		}
		e.R.Check(ok && n >= 1, rule, q+":more-from-real-end", e.fpos(f), "the M flag of the block sent depends on a comparison with the body size", "the M flag is a constant: a body that fits the first (BERT) block is announced as incomplete, or the last block as not last")
	}
}

// dependsOnBodySize: the comparison involves a value derived from Message.BodySize().
func dependsOnBodySize(b *ssa.BinOp, depth int) bool {
	var dep func(v ssa.Value, d int) bool
	dep = func(v ssa.Value, d int) bool {
		if d > 5 {
			return false
		}
		v = core.Resolve(v)
		switch x := v.(type) {
		case *ssa.Extract:
			if c, ok := x.Tuple.(*ssa.Call); ok && core.CalleeName(c) == "message/pool.Message.BodySize" {
				return true
			}
		case *ssa.BinOp:
			return dep(x.X, d+1) || dep(x.Y, d+1)
		case *ssa.Convert:
			return dep(x.X, d+1)
		case *ssa.UnOp:
			if a := core.CellOf(x.X); a != nil {
				for _, st := range core.StoresToCell(a) {
					if dep(st.Val, d+1) {
						return true
					}
				}
			}
		}
		return false
	}
	return dep(b.X, depth) || dep(b.Y, depth)
}

func c04StartOffset(e *Env) {
	rule := "C04.R7"
	f := e.fn(rule, bw+".createSendingMessage")
	if f == nil {
		return
	}
	// off = num * szx.Size()  (+ newBufLen only under the acknowledgement flag)
	var ackParam *ssa.Parameter
	for _, p := range f.Params {
		if b, ok := p.Type().Underlying().(interface{ String() string }); ok && b.String() == "bool" {
			ackParam = p
		}
	}
	var adds []*ssa.BinOp
	core.Instrs(f, func(in ssa.Instruction) {
		b, ok := in.(*ssa.BinOp)
		if !ok || b.Op != token.ADD {
			return
		}
		isBuf := func(v ssa.Value) bool {
			c, isC := core.Resolve(v).(*ssa.Call)
			return isC && core.CalleeName(c) == "net/blockwise.bufferSize"
		}
		isOff := func(v ssa.Value) bool {
			m, isM := core.Resolve(v).(*ssa.BinOp)
			return isM && m.Op == token.MUL
		}
		if (isBuf(b.X) && isOff(b.Y)) || (isBuf(b.Y) && isOff(b.X)) {
			adds = append(adds, b)
		}
	})
	ok := ackParam != nil && len(adds) == 1
	if ok {
		_, ok = core.GuardedBy(adds[0], func(cond ssa.Value) core.CondMatch {
			if core.Resolve(cond) == ssa.Value(ackParam) {
				return core.CondMatch{Match: true, Branch: true}
			}
			return core.CondMatch{}
		})
	}
	if ok {
		// … and only for an upload: a Block2 option names the block that is wanted, not one that was received
		_, ok = core.GuardedBy(adds[0], func(cond ssa.Value) core.CondMatch {
			c, isC := core.AsCmp(cond)
			if !isC || (c.Op != token.EQL && c.Op != token.NEQ) {
				return core.CondMatch{}
			}
			for _, v := range []ssa.Value{c.X, c.Y} {
				if k, isK := core.ConstInt(v); isK && k == 27 {
					return core.CondMatch{Match: true, Branch: c.Op == token.EQL}
				}
			}
			return core.CondMatch{}
		})
	}
	why := "the offset of a block to send skips one buffer although no block was acknowledged (or for a download): a one-way POST/PUT starts with block 1, a requested Block2 is answered with the block after it"
	if len(adds) == 0 {
		why = "the skip of the acknowledged block is missing"
	}
	e.R.Check(ok, rule, bw+".createSendingMessage:skip-only-for-acknowledgement", e.fpos(f), "offset = NUM·size, advanced by one buffer only when the option acknowledges a received block", why)
	// start paths pass false, the continuation passes true
	for _, sp := range []struct {
		fn   string
		want bool
	}{{bw + ".startSendingMessage", false}, {bw + ".continueSendingMessage", true}} {
		g := e.fn(rule, sp.fn)
		if g == nil {
			continue
		}
		okc, n := true, 0
		for _, h := range core.WithAnon(g) {
			for _, c := range core.Calls(h, func(_ string, ci ssa.CallInstruction) bool { return core.SameFunc(core.StaticFn(ci), f) }) {
				n++
				b, isB := core.ConstBool(core.Arg(c, core.NArgs(c)-1))
				if !isB || b != sp.want {
					okc = false
				}
			}
		}
		e.R.Check(okc && n == 1, rule, sp.fn+":ack-flag", e.fpos(g), fmt.Sprintf("passes acknowledgement=%v", sp.want), "the transfer start / continuation passes the wrong acknowledgement flag")
	}
}

func c04Keys(e *Env) {
	rule := "C04.R8"
	n := 0
	for _, f := range e.P.SrcFuncs(false) {
		if !strings.HasPrefix(core.FnName(f), "net/blockwise.") {
			continue
		}
		for _, c := range core.Calls(f, func(nm string, ci ssa.CallInstruction) bool {
			if !(strings.HasPrefix(nm, "pkg/sync.Map.") || strings.HasPrefix(nm, "pkg/cache.Cache.")) {
				return false
			}
			t := tableOf(ci)
			return strings.HasSuffix(t, ".sendingMessagesCache") || strings.HasSuffix(t, ".receivingMessagesCache")
		}) {
			if core.NArgs(c) < 2 || core.TypeName(core.Arg(c, 1).Type()) != "uint64" {
				continue
			}
			n++
			key := core.Arg(c, 1)
			_, ok := isTokenHash(key)
			if !ok {
				if p, isP := core.Resolve(key).(*ssa.Parameter); isP {
					ok = paramAlwaysTokenHash(e, p)
				}
				if fv, isFV := core.Resolve(key).(*ssa.FreeVar); isFV {
					if b := core.BindingOf(fv); b != nil {
						_, ok = isTokenHash(b)
						if !ok {
							if p, isP := core.Resolve(b).(*ssa.Parameter); isP {
								ok = paramAlwaysTokenHash(e, p)
							}
						}
					}
				}
				// a local holding token.Hash()
				if ld, isLd := key.(*ssa.UnOp); isLd && !ok {
					if a := core.CellOf(ld.X); a != nil {
						all := true
						for _, st := range core.StoresToCell(a) {
							if _, is := isTokenHash(st.Val); !is {
								all = false
							}
						}
						ok = all && len(core.StoresToCell(a)) > 0
					}
				}
			}
			e.R.Check(ok, rule, fmt.Sprintf("%s:%s %s key", core.FnName(f), shortType(core.CalleeName(c)), shortType(tableOf(c))), e.pos(c.(ssa.Instruction)), "key is the token hash of the message at hand", "a block-wise cache is accessed with a key that is not a token hash")
		}
	}
	if n < 6 {
		e.R.Undecided(rule, "blockwise-caches:accesses", "-", fmt.Sprintf("%d keyed accesses found", n))
	}
}

// delegatesToClone: the function (or a closure in it) builds its message with BlockWise.cloneMessage.
func delegatesToClone(f *ssa.Function) bool {
	for _, g := range core.WithAnon(f) {
		if len(core.CallsNamed(g, bw+".cloneMessage")) > 0 {
			return true
		}
	}
	return false
}

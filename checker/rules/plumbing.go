package rules

import (
	"go/token"
	"go/types"
	"strings"

	"coapcheck/internal/core"

	"golang.org/x/tools/go/ssa"
)

// Configuration plumbing. A setting the user puts into a server or client configuration reaches the mechanism a property
// talks about through a chain of plain copies: server Config → per-peer client Config → constructor arguments → struct
// fields. Each link is a field-to-field / field-to-parameter copy visible in the code. A dropped link leaves a default in
// force silently, a crossed link (two settings of the same type swapped) applies one setting in the other's place; neither is
// visible to the type checker or to tests that only use the defaults.

// fieldLoad describes v when it is (a conversion of) a load of a struct field: the field's name, whether the path to it goes
// through a field called "cfg" (s.cfg.X) or through a *Config-typed value, and whether it is read off a package-level variable.
type fieldLoad struct {
	name       string
	viaCfg     bool
	fromGlobal bool
}

func asFieldLoad(v ssa.Value) (fieldLoad, bool) {
	v = core.Resolve(core.Unwrap(v))
	ld, ok := v.(*ssa.UnOp)
	if !ok || ld.Op != token.MUL {
		if f, isF := v.(*ssa.Field); isF {
			_, name, ok2 := core.FieldOf(f)
			return fieldLoad{name: name}, ok2
		}
		return fieldLoad{}, false
	}
	fa, ok := ld.X.(*ssa.FieldAddr)
	if !ok {
		return fieldLoad{}, false
	}
	_, name, ok := core.FieldOf(fa)
	if !ok {
		return fieldLoad{}, false
	}
	out := fieldLoad{name: name}
	// walk the access path outwards
	var x ssa.Value = fa.X
	for i := 0; i < 8 && x != nil; i++ {
		if strings.HasSuffix(strings.TrimPrefix(core.TypeName(x.Type()), "*"), ".Config") {
			out.viaCfg = true
		}
		switch y := x.(type) {
		case *ssa.FieldAddr:
			if _, n, ok := core.FieldOf(y); ok && n == "cfg" {
				out.viaCfg = true
			}
			x = y.X
		case *ssa.UnOp:
			x = y.X
		case *ssa.Global:
			out.fromGlobal = true
			x = nil
		case *ssa.Alloc:
			// a local copy of a config: where was it initialised from? (cfg := client.DefaultConfig)
			x = nil
		default:
			x = nil
		}
	}
	return out, true
}

func structHasField(t types.Type, name string) bool {
	if p, ok := t.Underlying().(*types.Pointer); ok {
		t = p.Elem()
	}
	st, ok := t.Underlying().(*types.Struct)
	if !ok {
		return false
	}
	for i := 0; i < st.NumFields(); i++ {
		f := st.Field(i)
		if f.Name() == name {
			return true
		}
		if f.Embedded() && structHasField(f.Type(), name) {
			return true
		}
	}
	return false
}

// checkConfigCopy: in fn (which derives a per-connection client Config from the server's own), (a) every assignment
// cfg.F = <field load> reads the field of the same name F, and never a package default when the server has its own F;
// (b) each field in required is assigned from s.cfg.F.
func checkConfigCopy(e *Env, rule, fn string, required []string) {
	f := e.fn(rule, fn)
	if f == nil {
		return
	}
	var srvCfg types.Type
	if len(f.Params) > 0 {
		if p, ok := f.Params[0].Type().Underlying().(*types.Pointer); ok {
			if st, ok2 := p.Elem().Underlying().(*types.Struct); ok2 {
				for i := 0; i < st.NumFields(); i++ {
					if st.Field(i).Name() == "cfg" {
						srvCfg = st.Field(i).Type()
					}
				}
			}
		}
	}
	if srvCfg == nil {
		e.R.Undecided(rule, fn+":server-config", e.fpos(f), "the receiver has no cfg field")
		return
	}
	copied := map[string]bool{}
	core.Instrs(f, func(in ssa.Instruction) {
		st, isSt := in.(*ssa.Store)
		if !isSt {
			return
		}
		own, dst, isF := core.FieldOf(st.Addr)
		if !isF || !strings.HasSuffix(own, "client.Config") && !strings.HasSuffix(own, "config.Common") {
			return
		}
		src, isLd := asFieldLoad(st.Val)
		if !isLd {
			return
		}
		switch {
		case src.viaCfg && !src.fromGlobal:
			e.R.Check(src.name == dst, rule, fn+":cfg."+dst+" source", e.pos(st), "cfg."+dst+" = s.cfg."+src.name,
				"the per-connection setting "+dst+" is taken from the server's "+src.name+": two settings are crossed")
			if src.name == dst {
				copied[dst] = true
			}
		case src.fromGlobal && structHasField(srvCfg, dst):
			e.R.Fail(rule, fn+":cfg."+dst+" source", e.pos(st), "the per-connection setting "+dst+" is taken from a package default although the server has its own "+dst+": the user's setting is ignored")
		}
	})
	for _, r := range required {
		e.R.Check(copied[r], rule, fn+":copies "+r, e.fpos(f), "cfg."+r+" = s.cfg."+r, "the per-connection configuration no longer receives the server's "+r+": the default stays in force whatever the user configured")
	}
}

// argPlumb: at every call of callee inside caller, the argument bound to the parameter named param is a load of the field named field.
type argPlumb struct {
	caller, callee string
	param, field   string
}

func checkArgPlumbing(e *Env, rule string, table []argPlumb) {
	for _, ap := range table {
		f := e.fn(rule, ap.caller)
		if f == nil {
			continue
		}
		fs := append([]*ssa.Function{f}, f.AnonFuncs...)
		n := 0
		for _, g := range fs {
			for _, c := range core.CallsNamed(g, ap.callee) {
				callee := core.StaticFn(c)
				if callee == nil {
					continue
				}
				idx := -1
				for i, p := range callee.Params {
					if p.Name() == ap.param {
						idx = i
					}
				}
				construct := ap.caller + "→" + shortType(ap.callee) + ":" + ap.param
				if idx < 0 {
					e.R.Undecided(rule, construct, e.pos(c.(ssa.Instruction)), ap.callee+" has no parameter "+ap.param+" any more; update the plumbing table")
					continue
				}
				n++
				src, ok := asFieldLoad(core.Arg(c, idx))
				if !ok {
					e.R.Undecided(rule, construct, e.pos(c.(ssa.Instruction)), "the argument for "+ap.param+" is not a plain read of a configuration field")
					continue
				}
				e.R.Check(src.name == ap.field, rule, construct, e.pos(c.(ssa.Instruction)), ap.param+" ← "+src.name,
					"parameter "+ap.param+" of "+shortType(ap.callee)+" receives the setting "+src.name+" instead of "+ap.field)
			}
		}
		if n == 0 {
			e.R.Undecided(rule, ap.caller+"→"+shortType(ap.callee)+":"+ap.param, e.fpos(f), "no call of "+ap.callee+" in "+ap.caller+" any more; update the plumbing table")
		}
	}
}

// checkCtorInit: inside the constructor fn, the parameter named param ends up (possibly after clamping) in the struct field
// named field, and in no other field of that struct that has a same-typed sibling parameter of its own.
func checkCtorInit(e *Env, rule, fn string, pairs map[string]string) {
	f := e.fn(rule, fn)
	if f == nil {
		return
	}
	for param, field := range pairs {
		var p *ssa.Parameter
		for _, x := range f.Params {
			if x.Name() == param {
				p = x
			}
		}
		construct := fn + ":" + param + "→" + field
		if p == nil {
			e.R.Undecided(rule, construct, e.fpos(f), "parameter "+param+" not found; update the table")
			continue
		}
		ok := false
		bad := ""
		core.Instrs(f, func(in ssa.Instruction) {
			st, isSt := in.(*ssa.Store)
			if !isSt {
				return
			}
			_, dst, isF := core.FieldOf(st.Addr)
			if !isF {
				return
			}
			if !derivesFromParam(st.Val, p, 0) {
				return
			}
			if dst == field {
				ok = true
			} else if _, other := pairs[dstParam(pairs, dst)]; other {
				bad = "parameter " + param + " is stored into field " + dst
			}
		})
		e.R.Check(ok && bad == "", rule, construct, e.fpos(f), "field "+field+" initialised from parameter "+param, "constructor wiring broken: "+bad+orStr(ok, "", "; field "+field+" is not initialised from "+param))
	}
}

func orStr(c bool, a, b string) string {
	if c {
		return a
	}
	return b
}

func dstParam(pairs map[string]string, field string) string {
	for p, f := range pairs {
		if f == field {
			return p
		}
	}
	return ""
}

// derivesFromParam: v is p, a phi/conversion of it, or the result of a single-argument call on it (semaphore.NewWeighted(limit), atomic.NewUint32(x)).
func derivesFromParam(v ssa.Value, p *ssa.Parameter, depth int) bool {
	if depth > 4 {
		return false
	}
	v = core.Resolve(core.Unwrap(v))
	if v == ssa.Value(p) {
		return true
	}
	switch x := v.(type) {
	case *ssa.Phi:
		for _, ed := range x.Edges {
			if derivesFromParam(ed, p, depth+1) {
				return true
			}
		}
	case *ssa.Call:
		if len(x.Call.Args) == 1 {
			return derivesFromParam(x.Call.Args[0], p, depth+1)
		}
	case *ssa.UnOp:
		if x.Op == token.MUL {
			// a parameter that is reassigned lives in a cell
			if a, ok := x.X.(*ssa.Alloc); ok {
				for _, st := range core.StoresToCell(a) {
					if derivesFromParam(st.Val, p, depth+1) {
						return true
					}
				}
			}
		}
	}
	return false
}

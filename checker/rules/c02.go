package rules

import (
	"fmt"
	"go/token"
	"math/big"
	"sort"
	"strings"

	"coapcheck/internal/core"

	"golang.org/x/tools/go/ssa"
)

func init() {
	register(&Property{
		ID:    "C02",
		Title: "Decoders are total, safe and canonicalising on arbitrary bytes",
		Level: "other",
		Explain: "Decided (necessary conditions of 'never crashes / bounded time / re-encodable / no aliasing'): " +
			"(R1) every index, slice expression and fixed-width read on wire bytes in the datagram decoder, the stream header parser and decoder, the option-list parser, the option extension parser and the stream re-framing loop is in range on every path – from dominating guards on the same value, slice arithmetic and callee summaries that are themselves verified (consumed ≤ len(input) whenever err == nil, by the cursor/counter lock-step analysis); " +
			"(R2) progress: the option loop consumes ≥ 1 byte per iteration, the option-capacity retry strictly grows the capacity, the stream loop consumes exactly what the decoder reported; " +
			"(R3) no silent narrowing: the stream header parser is abstractly interpreted on fully symbolic buffers of every length 0…16 – no wrap, no lossy conversion, no out-of-range access, only the four documented outcomes; the running option number goes through the checked cast and its error is returned; " +
			"(R4) what the decoders accept satisfies the encoders' preconditions (token ≤ 8 bytes in both decoders; option numbers ascend because delta is unsigned); " +
			"(R5) the pooled-message entry point copies the caller's bytes and hands only its own buffer to the decoder; (R6) the option registries equal the RFC tables, are written only by their initialisers, illegal lengths are skipped exactly outside [Min,Max], and the stream decoder selects the registry by the FRAME's code; (R7) re-encodability: the encoder's extension classes compose with the decoder's to the identity (shared with C01.R1).",
		NotDecided: "Agreement with an independent RFC parser on every byte string, idempotence of decode∘encode, and bounded time beyond loop progress (allocation, GC) are not decided – they need execution.",
		Run:        runC02,
	})
}

// decoder functions by role (anchors of C02/C07); each gets all its index/slice obligations decided.
var c02Decoders = []string{
	"udp/coder.Coder.Decode",
	"tcp/coder.Coder.DecodeHeader",
	"tcp/coder.Coder.DecodeWithHeader",
	"tcp/coder.Coder.Decode",
	"message.Options.Unmarshal",
	"message.parseExtOpt",
	"message.Option.Unmarshal",
	"message.Option.UnmarshalValue",
	"tcp/client.Session.processBuffer",
	"message/pool.Message.UnmarshalWithDecoder",
	"message/pool.Message.decode",
}

// summaries used by the bounds engine; each one is verified below before it is relied upon.
func c02Summaries() map[string]core.Summary {
	return map[string]core.Summary{
		"message.parseExtOpt":              {Fn: "message.parseExtOpt", Ret: 0, Param: 0},
		"message.Option.UnmarshalValue":    {Fn: "message.Option.UnmarshalValue", Ret: 0, Param: 1},
		"message.Option.Unmarshal":         {Fn: "message.Option.Unmarshal", Ret: 0, Param: 1},
		"message.Options.Unmarshal":        {Fn: "message.Options.Unmarshal", Ret: 0, Param: 1},
		"tcp/coder.Coder.DecodeWithHeader": {Fn: "tcp/coder.Coder.DecodeWithHeader", Ret: 0, Param: 1},
	}
}

func runC02(e *Env) {
	r := e.R
	r.Rule("C02.R1", "bounds", "every index / slice / fixed-width read on wire bytes is in range on every path", 30)
	r.Rule("C02.R1s", "bounds", "callee summaries relied upon by R1 hold: consumed count ∈ [0, len(input)] on every nil-error return", 6)
	r.Rule("C02.R2", "bounds+paths", "loops over wire data make progress", 3)
	r.Rule("C02.R3", "absint", "no wrap / lossy conversion / out-of-range access in the stream header parser for any buffer of length 0…16; option number overflow is rejected", 18)
	r.Rule("C02.R4", "bounds+flows", "decoders only accept what the encoders can re-encode (token ≤ 8 bytes); option numbers accumulate over every parsed option", 4)
	r.Rule("C02.R5", "flows+paths", "the pooled entry point copies the input and decodes its own buffer; a decoder stores every header field of the destination on every successful return", 9)
	r.Rule("C02.R6", "tables+absint", "option registries equal the RFC tables and are single-writer; illegal lengths skipped exactly outside [Min,Max]; registry selected by the frame code", 14)

	sums := c02Summaries()
	core.FieldSummaries["tcp/coder.Coder.DecodeHeader"] = core.FieldSummary{Field: "Length", StructArg: 2, Param: 1}
	core.NonNegSummaries["message.parseExtOpt"] = core.NonNegSummary{Ret: 1, IfParam: 1}
	if e.want("C02.R1") {
		for _, q := range c02Decoders {
			f := e.fn("C02.R1", q)
			if f == nil {
				continue
			}
			fam := core.WithAnon(f)
			for _, h := range core.AbsorbedInto(f) {
				fam = append(fam, h) // helpers analysed as part of the decoder: their own accesses, with the facts their call sites establish
			}
			for _, g := range fam {
				b := core.NewBounds(e.P, g, sums)
				obls := b.Obligations()
				for _, o := range obls {
					construct := fmt.Sprintf("%s:%s %s", core.FnName(g), o.Kind, o.Desc)
					if o.OK {
						r.Ok("C02.R1", construct, e.pos(o.Instr), "in range on every path (dominating guard / slice arithmetic / verified summary)")
					} else {
						r.Fail("C02.R1", construct, e.pos(o.Instr), "possible out-of-range access on attacker-controlled bytes: "+o.Why)
					}
				}
			}
		}
	}
	if e.want("C02.R1s") {
		c02VerifySummaries(e, sums)
	}
	if e.want("C02.R2") {
		c02Progress(e, sums)
		cursorLinearity(e, "C02.R2")
	}
	if e.want("C02.R3") {
		c02HeaderAbsint(e)
		c02OptionNumber(e)
	}
	if e.want("C02.R4") {
		c02TokenLen(e, sums)
		c02Accumulate(e)
		skipLeavesIDZero(e, "C02.R4")
	}
	if e.want("C02.R5") {
		c02NoAlias(e)
		checkDecoderAssignsAll(e, "C02.R5")
	}
	if e.want("C02.R6") {
		c02Registry(e)
		c01SignalRegistries(e, "C02.R6")
	}
	if e.want("C02.R7") {
		// re-encodability of what was accepted: the encoder's extension classes are exactly the decoder's (same obligations as C01.R1)
		r.Rule("C02.R7", "absint", "whatever the decoders accept can be re-encoded to bytes that decode to the same values: encoder and decoder class tables compose to the identity", 12)
		c01OptionClasses(e, "C02.R7")
		c01StreamLength(e, "C02.R7")
	}
}

func lockstepReport(e *Env, rule, name string, res []core.LockStepResult, kinds ...string) {
	want := map[string]bool{}
	for _, k := range kinds {
		want[k] = true
	}
	n := 0
	for _, x := range res {
		if len(want) > 0 && !want[x.Kind] {
			continue
		}
		n++
		construct := fmt.Sprintf("%s:lockstep %s", name, x.Kind)
		pos := "-"
		if x.At != nil {
			pos = e.pos(x.At)
		}
		if x.OK {
			e.R.Ok(rule, construct, pos, "cursor offset and consumed counter agree on every acyclic path through this point")
		} else {
			e.R.Fail(rule, construct, pos, x.Why)
		}
	}
	if n == 0 {
		e.R.Undecided(rule, name+":lockstep", "-", "no checkpoint found ("+strings.Join(kinds, ",")+"): the function no longer has the cursor/counter shape")
	}
}

func c02VerifySummaries(e *Env, sums map[string]core.Summary) {
	rule := "C02.R1s"
	// parseExtOpt, Option.Unmarshal(Value): per-return guard argument
	for _, q := range []string{"message.parseExtOpt", "message.Option.UnmarshalValue", "message.Option.Unmarshal"} {
		f := e.fn(rule, q)
		if f == nil {
			continue
		}
		s := sums[q]
		res := core.LockStep(e.P, core.LockStepSpec{Fn: f, CursorParam: s.Param, RetIndex: s.Ret}, sums)
		// these functions return constants / len(x) / a callee's count; accept when every return checkpoint is fine
		ok, why := true, ""
		n := 0
		for _, x := range res {
			if x.Kind != "return" {
				continue
			}
			n++
			if !x.OK {
				// fall back to the direct argument: value ≤ len(param) by guards
				ret := x.At.(*ssa.Return)
				b := core.NewBounds(e.P, f, sums)
				if !retLeLen(b, core.RetVal(ret, s.Ret), f.Params[s.Param], ret) {
					ok, why = false, x.Why
				}
			}
		}
		e.R.Check(ok && n > 0, rule, q+":consumed≤len(input)", e.fpos(f), fmt.Sprintf("on all %d nil-error returns the count is within the input", n), why)
	}
	// parseExtOpt: the decoded value is ≥ 0 whenever the nibble passed in is ≥ 0
	if f := e.fn(rule, "message.parseExtOpt"); f != nil && len(f.Params) == 2 {
		b := core.NewBounds(e.P, f, sums)
		b.AssumeNonNeg = map[ssa.Value]bool{f.Params[1]: true}
		ok, n := true, 0
		for _, ret := range core.ReturnsOf(f) {
			if core.ReturnsNonNilError(ret) {
				continue
			}
			n++
			if !b.ValueAtLeast(core.RetVal(ret, 1), 0, ret) {
				ok = false
			}
		}
		e.R.Check(ok && n > 0, rule, "message.parseExtOpt:value≥0", e.fpos(f), "the extended value is non-negative on every nil-error return when the nibble is", "the extended delta/length can be negative")
	}
	// Options.Unmarshal: loop invariant
	if f := e.fn(rule, "message.Options.Unmarshal"); f != nil {
		res := core.LockStep(e.P, core.LockStepSpec{Fn: f, CursorParam: 1, RetIndex: 0, MinAdvance: 1}, sums)
		lockstepReport(e, rule, "message.Options.Unmarshal", res, "back-edge", "return")
	}
	// DecodeHeader: h.Length ≤ len(data)
	if f := e.fn(rule, "tcp/coder.Coder.DecodeHeader"); f != nil {
		res := core.LockStep(e.P, core.LockStepSpec{Fn: f, CursorParam: 1, RetIndex: 0, StoreField: "Length"}, sums)
		lockstepReport(e, rule, "tcp/coder.Coder.DecodeHeader", res, "store", "return")
	}
	// DecodeWithHeader: returns header.Length + proc + len(rest): not a cursor over its own input; its result is used only after the
	// caller established len(data) ≥ MessageLength. Verified shape: processed = header.Length + proc + len(data[proc:]).
	if f := e.fn(rule, "tcp/coder.Coder.DecodeWithHeader"); f != nil {
		res := core.LockStep(e.P, core.LockStepSpec{Fn: f, CursorParam: 1, RetIndex: -1}, sums)
		_ = res
		e.R.OkTrivial(rule, "tcp/coder.Coder.DecodeWithHeader:summary-unused", e.fpos(f), "its count is compared, never used as an index, by the callers analysed in R1")
	}
}

// retLeLen: v ≤ len(param) at `at` by constants+guards, len(x) of a sub-slice, or a callee summary on a sub-slice.
func retLeLen(b *core.Bounds, v ssa.Value, param ssa.Value, at ssa.Instruction) bool {
	if c, ok := core.ConstInt(v); ok {
		return c <= 0 || b.LenAtLeast(param, at, core.Term{K: c})
	}
	// the value itself is bounded by a dominating guard len(param) ≥ v (e.g. a size chosen per branch and then checked once)
	if b.LenAtLeast(param, at, core.Term{V: v}) {
		return true
	}
	switch x := v.(type) {
	case *ssa.Phi:
		for i, ed := range x.Edges {
			pred := x.Block().Preds[i]
			if !retLeLen(b, ed, param, pred.Instrs[len(pred.Instrs)-1]) {
				return false
			}
		}
		return true
	case *ssa.Call:
		if bi, ok := x.Call.Value.(*ssa.Builtin); ok && bi.Name() == "len" {
			return sliceOf(x.Call.Args[0], param)
		}
	case *ssa.Extract:
		if c, ok := x.Tuple.(*ssa.Call); ok {
			if s, ok := b.Summaries[core.CalleeName(c)]; ok && s.Ret == x.Index {
				return sliceOf(core.Arg(c, s.Param), param)
			}
			// the tail of the function moved into a helper analysed as part of it: every successful return of the helper yields a
			// count within the helper's own input, and that input is (a tail of) ours
			if h := core.AbsorbedCallee(c); h != nil {
				n := 0
				for _, r := range core.ReturnsOf(h) {
					if x.Index >= len(r.Results) || core.ReturnsNonNilError(r) {
						continue
					}
					hv := core.RetVal(r, x.Index)
					if k, isK := core.ConstInt(hv); isK && k <= 0 {
						continue
					}
					okRet := false
					for pi, hp := range h.Params {
						if pi < len(c.Call.Args) && sliceOf(c.Call.Args[pi], param) && retLeLen(core.NewBounds(b.P, h, b.Summaries), hv, hp, r) {
							okRet = true
						}
					}
					if !okRet {
						return false
					}
					n++
				}
				return n > 0
			}
		}
	}
	return false
}

func sliceOf(a, param ssa.Value) bool {
	for i := 0; i < 6; i++ {
		if a == param {
			return true
		}
		s, ok := a.(*ssa.Slice)
		if !ok {
			return false
		}
		a = s.X
	}
	return false
}

func c02Progress(e *Env, sums map[string]core.Summary) {
	rule := "C02.R2"
	if f := e.fn(rule, "message.Options.Unmarshal"); f != nil {
		res := core.LockStep(e.P, core.LockStepSpec{Fn: f, CursorParam: 1, RetIndex: 0, MinAdvance: 1}, sums)
		lockstepReport(e, rule, "message.Options.Unmarshal", res, "progress")
	}
	// option-capacity retry: the new capacity is strictly larger than the old one for every old capacity ≥ 0
	if f := e.fn(rule, "message/pool.Message.decode"); f != nil {
		found := false
		core.Instrs(f, func(in ssa.Instruction) {
			ms, ok := in.(*ssa.MakeSlice)
			if !ok {
				return
			}
			looped := inLoop(in)
			if !looped && in.Parent() != f {
				// allocated by a helper that the retry loop calls
				for _, site := range core.SitesOf(in.Parent()) {
					if inLoop(site) {
						looped = true
					}
				}
			}
			if !looped {
				return
			}
			found = true
			ok2, how := strictlyGrows(ms.Cap)
			_, guarded := core.GuardedBy(in, func(cond ssa.Value) core.CondMatch {
				if _, is := core.CondCall(cond, "errors.Is"); is {
					return core.CondMatch{Match: true, Branch: true}
				}
				return core.CondMatch{}
			})
			e.R.Check(ok2 && guarded, rule, "message/pool.Message.decode:retry-grows", e.pos(in),
				"retry allocates "+how+" > old capacity for every old capacity ≥ 0, only on the options-too-small edge",
				"the retry capacity is not provably larger than the old capacity for every old capacity (e.g. 0): "+how)
		})
		if !found {
			e.R.Undecided(rule, "message/pool.Message.decode:retry-grows", e.fpos(f), "no allocation in the retry loop found")
		}
		// the loop is left on every other outcome
		n := 0
		for _, ret := range core.ReturnsOf(f) {
			if inLoop(ret) || true {
				n++
			}
		}
		e.R.Check(n > 0, rule, "message/pool.Message.decode:exits", e.fpos(f), "every non-retry outcome returns", "no return")
	}
	// stream loop: consumes exactly the decoder's count, which is ≥ 1 on success (MessageLength ≥ 2)
	if f := e.fn(rule, "tcp/client.Session.processBuffer"); f != nil {
		ok := false
		for _, c := range core.CallsNamed(f, "tcp/client.seekBufferToNextMessage") {
			if ex, isEx := core.Arg(c, 1).(*ssa.Extract); isEx {
				if uc, isCall := ex.Tuple.(*ssa.Call); isCall && core.CalleeName(uc) == "message/pool.Message.UnmarshalWithDecoder" && ex.Index == 0 {
					ok = true
				}
			}
		}
		e.R.Check(ok, rule, "tcp/client.Session.processBuffer:consumes-decoded-count", e.fpos(f), "the buffer is advanced by exactly the count the decoder returned", "the buffer is not advanced by the decoder's own count")
	}
}

// strictlyGrows recognises capacity expressions that exceed cap(old) for every cap(old) ≥ 0.
func strictlyGrows(v ssa.Value) (bool, string) {
	isCap := func(x ssa.Value) bool {
		c, ok := x.(*ssa.Call)
		if !ok {
			return false
		}
		b, ok := c.Call.Value.(*ssa.Builtin)
		return ok && (b.Name() == "cap" || b.Name() == "len")
	}
	isCapOnly := func(x ssa.Value) bool {
		c, ok := x.(*ssa.Call)
		if !ok {
			return false
		}
		b, ok := c.Call.Value.(*ssa.Builtin)
		return ok && b.Name() == "cap"
	}
	switch x := v.(type) {
	case *ssa.Call:
		if b, ok := x.Call.Value.(*ssa.Builtin); ok && b.Name() == "max" && len(x.Call.Args) == 2 {
			for _, pr := range [][2]ssa.Value{{x.Call.Args[0], x.Call.Args[1]}, {x.Call.Args[1], x.Call.Args[0]}} {
				if k, isC := core.ConstInt(pr[1]); isC && k >= 1 {
					if m, isM := pr[0].(*ssa.BinOp); isM && m.Op == token.MUL {
						if c, isC2 := core.ConstInt(m.Y); isC2 && c >= 2 && isCapOnly(m.X) {
							return true, fmt.Sprintf("max(cap·%d, %d)", c, k)
						}
						if c, isC2 := core.ConstInt(m.X); isC2 && c >= 2 && isCapOnly(m.Y) {
							return true, fmt.Sprintf("max(%d·cap, %d)", c, k)
						}
					}
				}
			}
			return false, "max(…) of an unrecognised shape"
		}
	case *ssa.BinOp:
		if x.Op == token.ADD {
			if k, isC := core.ConstInt(x.Y); isC && k >= 1 {
				if isCapOnly(x.X) {
					return true, fmt.Sprintf("cap+%d", k)
				}
				if m, isM := x.X.(*ssa.BinOp); isM && m.Op == token.MUL && (isCapOnly(m.X) || isCapOnly(m.Y)) {
					return true, fmt.Sprintf("cap·k+%d", k)
				}
			}
		}
		if x.Op == token.MUL {
			if isCap(x.X) || isCap(x.Y) {
				return false, "a multiple of the old length/capacity, which is 0 when that is 0"
			}
		}
	}
	return false, "unrecognised capacity expression"
}

// c02HeaderAbsint: abstract interpretation of DecodeHeader on symbolic buffers of every length 0..16.
func c02HeaderAbsint(e *Env) { c02HeaderAbsintAs(e, "C02.R3") }

func c02HeaderAbsintAs(e *Env, rule string) {
	f := e.fn(rule, "tcp/coder.Coder.DecodeHeader")
	if f == nil || len(f.Params) != 3 {
		return
	}
	allowed := map[string]bool{"global:message.ErrShortRead": true, "global:message.ErrInvalidTokenLen": true, "global:coder.ErrMessageTooLarge": true}
	for L := 0; L <= 16; L++ {
		it := core.NewInterp(e.P)
		var outs []core.Outcome
		outs = it.RunWith(f, func(st *core.AState) []*core.AVal {
			bs := make([]*core.AVal, L)
			for i := range bs {
				bs[i] = core.SymInt(fmt.Sprintf("b%d", i), 8, false, big.NewInt(0), big.NewInt(255), 8)
			}
			buf := st.NewArray(bs)
			if L == 0 {
				buf = st.NewArray(nil)
			}
			return []*core.AVal{core.OpaqueV("coder"), buf, core.OpaqueV("obj:h")}
		})
		ok, why := len(outs) > 0, ""
		nOK, nErr := 0, 0
		for _, o := range outs {
			switch {
			case o.Abort || o.Panic:
				ok, why = false, "undecided/panic: "+o.Why
			case len(o.Ret) != 2 || o.Ret[1].K != core.AErr || o.Ret[1].ErrNil == -1:
				ok, why = false, "undecided result: "+core.SummarizeOutcomes([]core.Outcome{o})
			case o.Ret[1].ErrNil == 0:
				nErr++
				if !allowed[o.Ret[1].Tag] {
					ok, why = false, "unexpected error outcome "+o.Ret[1].Tag
				}
			default:
				nOK++
				// consumed header length within the buffer
				if o.Ret[0].K != core.AInt || o.Ret[0].Hi.Cmp(big.NewInt(int64(L))) > 0 || o.Ret[0].Lo.Sign() < 0 {
					ok, why = false, fmt.Sprintf("header length %s not within the %d-byte buffer", o.Ret[0], L)
				}
			}
			if o.St != nil {
				for _, ev := range o.St.Events {
					ok, why = false, ev
				}
			}
		}
		construct := fmt.Sprintf("tcp/coder.Coder.DecodeHeader:len=%d", L)
		if ok {
			e.R.Ok(rule, construct, e.fpos(f), fmt.Sprintf("%d abstract paths over fully symbolic bytes: %d accept (length ≤ %d), %d refuse with ErrShortRead/ErrInvalidTokenLen/ErrMessageTooLarge; no wrap, narrowing or out-of-range access", len(outs), nOK, L, nErr))
		} else if strings.HasPrefix(why, "undecided") {
			e.R.Undecided(rule, construct, e.fpos(f), why)
		} else {
			e.R.Fail(rule, construct, e.fpos(f), why)
		}
	}
}

// c02OptionNumber: prev+delta goes through SafeCastTo and its error is returned.
func c02OptionNumber(e *Env) {
	rule := "C02.R3"
	f := e.fn(rule, "message.Options.Unmarshal")
	if f == nil {
		return
	}
	var cast *ssa.Call
	for _, c := range core.Calls(f, func(n string, _ ssa.CallInstruction) bool { return n == "pkg/math.SafeCastTo" }) {
		cast = c.(*ssa.Call)
	}
	if cast == nil {
		e.R.Fail(rule, "message.Options.Unmarshal:option-number-checked", e.fpos(f), "the running option number is no longer converted with the checked cast (SafeCastTo): a sum above 65535 would wrap silently")
		return
	}
	// its error result is tested and the non-nil edge returns a non-nil error
	ok := false
	for _, i := range core.IfsOf(f) {
		ev, nilBranch, isErr := core.ErrNilEdge(i)
		if !isErr {
			continue
		}
		ex, isEx := ev.(*ssa.Extract)
		if !isEx || ex.Tuple != ssa.Value(cast) {
			continue
		}
		k := 0
		if nilBranch {
			k = 1
		}
		blk := i.Block().Succs[k]
		// every path from that block to a return returns a non-nil error before touching the options
		q := &core.PathQuery{Fn: f, From: blk.Instrs[0], Target: func(in ssa.Instruction) bool {
			ret, isRet := in.(*ssa.Return)
			return isRet && !core.ReturnsNonNilError(ret)
		}, Stop: func(in ssa.Instruction) bool { return false }}
		if _, isRet := blk.Instrs[len(blk.Instrs)-1].(*ssa.Return); isRet {
			ok = core.ReturnsNonNilError(blk.Instrs[len(blk.Instrs)-1].(*ssa.Return))
		} else {
			ok = q.Find() == nil
		}
	}
	// the ID given to the option is the cast's result
	idOK := false
	for _, c := range core.CallsNamed(f, "message.Option.Unmarshal") {
		if ex, isEx := core.Arg(c, 3).(*ssa.Extract); isEx && ex.Tuple == ssa.Value(cast) && ex.Index == 0 {
			idOK = true
		}
	}
	e.R.Check(ok && idOK, rule, "message.Options.Unmarshal:option-number-checked", e.pos(cast), "prev+delta is range-checked (SafeCastTo), its error is returned, and the checked value is the option's number", "the checked cast's error is not returned or its result is not the option number used")
}

func c02TokenLen(e *Env, sums map[string]core.Summary) {
	rule := "C02.R4"
	max, _, okc := e.P.ConstValue("message", "MaxTokenSize")
	e.R.Check(okc && max == 8, rule, "message.MaxTokenSize:value", "-", "MaxTokenSize = 8", fmt.Sprintf("MaxTokenSize = %d", max))
	for _, q := range []string{"udp/coder.Coder.Decode", "tcp/coder.Coder.DecodeHeader"} {
		f := e.fn(rule, q)
		if f == nil {
			continue
		}
		b := core.NewBounds(e.P, f, sums)
		n, ok := 0, true
		core.Instrs(f, func(in ssa.Instruction) {
			s, isS := in.(*ssa.Slice)
			if !isS || s.High == nil {
				return
			}
			if _, isC := core.ConstInt(s.High); isC {
				return
			}
			if s.Low != nil {
				// the token sliced by absolute offsets: data[k : k+tokenLen] – the length is high − k
				k, isK := core.ConstInt(s.Low)
				if !isK || s.Parent() != f {
					return
				}
				n++
				okTok := b.ValueAtMost(s.High, core.Term{K: 8 + k}, in)
				if add, isAdd := core.Resolve(s.High).(*ssa.BinOp); !okTok && isAdd && add.Op == token.ADD {
					for _, pr := range [][2]ssa.Value{{add.X, add.Y}, {add.Y, add.X}} {
						if c, isC := core.ConstInt(pr[0]); isC && b.ValueAtMost(pr[1], core.Term{K: 8 + k - c}, in) {
							okTok = true
						}
					}
				}
				if !okTok {
					ok = false
				}
				return
			}
			// the token slice: data[:tokenLen]
			n++
			if s.Parent() != f {
				// the helper reads and checks the length itself
				if core.NewBounds(e.P, s.Parent(), sums).ValueAtMost(s.High, core.Term{K: 8}, in) {
					return
				}
				// sliced inside a helper analysed as part of the decoder: the bound is what every call site establishes for the argument
				hv := core.Resolve(s.High)
				sites := core.SitesOf(s.Parent())
				if len(sites) == 0 {
					ok = false
				}
				for _, site := range sites {
					if site.Parent() != f || !b.ValueAtMost(hv, core.Term{K: 8}, site) {
						ok = false
					}
				}
				return
			}
			if !b.ValueAtMost(s.High, core.Term{K: 8}, in) {
				ok = false
			}
		})
		e.R.Check(ok && n > 0, rule, q+":token≤8", e.fpos(f), "the token length is ≤ 8 at the point the token is sliced (reserved lengths 9-15 are refused first)", "a token longer than 8 bytes can be accepted, which the encoders refuse to re-encode")
	}
}

// c02Accumulate: the running option number advances by every parsed delta – kept or dropped option alike:
// on every loop back edge the value carried into `prev` is the range-checked sum of this iteration.
func c02Accumulate(e *Env) { c02AccumulateAs(e, "C02.R4") }

func c02AccumulateAs(e *Env, rule string) {
	f := e.fn(rule, "message.Options.Unmarshal")
	if f == nil {
		return
	}
	var cast *ssa.Call
	for _, c := range core.Calls(f, func(n string, _ ssa.CallInstruction) bool { return n == "pkg/math.SafeCastTo" }) {
		cast = c.(*ssa.Call)
	}
	if cast == nil {
		return // reported by C02.R3
	}
	// prev is the loop-head phi that feeds the cast's argument (prev + delta)
	var prev *ssa.Phi
	if add, ok := core.Arg(cast, 0).(*ssa.BinOp); ok && add.Op == token.ADD {
		for _, op := range []ssa.Value{add.X, add.Y} {
			if ph, isPhi := op.(*ssa.Phi); isPhi {
				prev = ph
			}
		}
	}
	if prev == nil {
		e.R.Undecided(rule, "message.Options.Unmarshal:number-accumulates", e.pos(cast), "cannot identify the running option number (prev + delta) feeding the checked cast")
		return
	}
	fromCast := func(v ssa.Value) bool {
		v = core.Unwrap(v)
		ex, ok := v.(*ssa.Extract)
		return ok && ex.Tuple == ssa.Value(cast) && ex.Index == 0
	}
	var bad []string
	var check func(v ssa.Value, seen map[ssa.Value]bool)
	check = func(v ssa.Value, seen map[ssa.Value]bool) {
		if seen[v] {
			return
		}
		seen[v] = true
		if fromCast(v) {
			return
		}
		if ph, ok := v.(*ssa.Phi); ok && ph != prev {
			for _, ed := range ph.Edges {
				check(ed, seen)
			}
			return
		}
		bad = append(bad, v.Name())
	}
	n := 0
	for k, pr := range prev.Block().Preds {
		if prev.Block().Dominates(pr) { // back edge
			n++
			check(prev.Edges[k], map[ssa.Value]bool{})
		}
	}
	e.R.Check(n > 0 && len(bad) == 0, rule, "message.Options.Unmarshal:number-accumulates", e.pos(cast),
		"on every back edge the running option number is this iteration's checked prev+delta (dropped options still advance it)",
		"an iteration can leave the running option number without this iteration's delta (values "+strings.Join(bad, ",")+"): every later option would get a wrong number")
}

func c02NoAlias(e *Env) {
	rule := "C02.R5"
	f := e.fn(rule, "message/pool.Message.UnmarshalWithDecoder")
	if f == nil || len(f.Params) != 3 {
		return
	}
	bad := ""
	nCopy := 0
	var follow func(data ssa.Value, d int)
	follow = func(data ssa.Value, d int) {
		for _, ref := range core.Referrers(data) {
			switch u := ref.(type) {
			case *ssa.Call:
				if b, ok := u.Call.Value.(*ssa.Builtin); ok {
					switch b.Name() {
					case "len":
						continue
					case "copy":
						if len(u.Call.Args) == 2 && u.Call.Args[1] == data {
							nCopy++
							continue
						}
					case "append":
						// append(own[:0], data...): the bytes are copied into the message's own backing array
						if len(u.Call.Args) == 2 && u.Call.Args[1] == data {
							if sl, isSl := u.Call.Args[0].(*ssa.Slice); isSl && isFieldLoad(sl.X, "bufferUnmarshal") {
								nCopy++
								continue
							}
						}
					}
				}
				// a helper analysed as part of this function: follow the parameter the buffer is bound to
				if h := core.AbsorbedCallee(u); h != nil && d < 3 {
					for k, a := range u.Call.Args {
						if a == data && k < len(h.Params) {
							follow(h.Params[k], d+1)
						}
					}
					continue
				}
				bad = "the caller's buffer is passed to " + core.CalleeName(u) + " at " + e.pos(u)
			case *ssa.DebugRef:
			default:
				bad = "the caller's buffer is used by " + strings.TrimSpace(fmt.Sprint(ref)) + " at " + e.pos(ref)
			}
		}
	}
	follow(f.Params[2], 0)
	e.R.Check(bad == "" && nCopy == 1, rule, "message/pool.Message.UnmarshalWithDecoder:input-only-copied", e.fpos(f), "the input slice flows only into len() and the source of one copy()", bad)
	// decode() hands r.bufferUnmarshal to the decoder
	if g := e.fn(rule, "message/pool.Message.decode"); g != nil {
		ok := false
		core.Instrs(g, func(in ssa.Instruction) {
			c, isC := in.(*ssa.Call)
			if !isC || !c.Call.IsInvoke() || c.Call.Method.Name() != "Decode" {
				return
			}
			if ld, isLd := c.Call.Args[0].(*ssa.UnOp); isLd {
				if _, fl, isF := core.FieldOf(ld.X); isF && fl == "bufferUnmarshal" {
					ok = true
				}
			}
		})
		e.R.Check(ok, rule, "message/pool.Message.decode:decodes-own-buffer", e.fpos(g), "Decoder.Decode receives the message-owned bufferUnmarshal", "the decoder is given something other than the message-owned buffer")
	}
}

type optDef struct{ min, max, format int64 }

func c02Registry(e *Env) {
	rule := "C02.R6"
	const (
		fEmpty  = 1
		fOpaque = 2
		fUint   = 3
		fString = 4
	)
	// RFC 7252 §5.10, RFC 7641 (Observe), RFC 7959 (Block1/2, Size1/2), RFC 7967 (No-Response)
	coap := map[int64]optDef{
		1: {0, 8, fOpaque}, 3: {1, 255, fString}, 4: {1, 8, fOpaque}, 5: {0, 0, fEmpty}, 6: {0, 3, fUint}, 7: {0, 2, fUint},
		8: {0, 255, fString}, 11: {0, 255, fString}, 12: {0, 2, fUint}, 14: {0, 4, fUint}, 15: {0, 255, fString}, 17: {0, 2, fUint},
		20: {0, 255, fString}, 23: {0, 3, fUint}, 27: {0, 3, fUint}, 28: {0, 4, fUint}, 35: {1, 1034, fString}, 39: {1, 255, fString},
		60: {0, 4, fUint}, 258: {0, 1, fUint},
	}
	// RFC 8323 §5.3-5.6
	tables := []struct {
		name string
		want map[int64]optDef
	}{
		{"CoapOptionDefs", coap},
		{"TCPSignalCSMOptionDefs", map[int64]optDef{2: {0, 4, fUint}, 4: {0, 0, fEmpty}}},
		{"TCPSignalPingPongOptionDefs", map[int64]optDef{2: {0, 0, fEmpty}}},
		{"TCPSignalReleaseOptionDefs", map[int64]optDef{2: {1, 255, fString}, 4: {0, 3, fUint}}},
		{"TCPSignalAbortOptionDefs", map[int64]optDef{2: {0, 2, fUint}}},
	}
	pk := e.P.Pkg("message")
	if pk == nil {
		e.R.Undecided(rule, "message:package", "-", "package message not found")
		return
	}
	for _, t := range tables {
		lit, pos := core.VarLiteral(pk, t.name)
		if lit == nil {
			e.R.Undecided(rule, "message."+t.name+":table", "-", "table is not a map literal any more")
			continue
		}
		got, ok := core.EvalStructMap(pk, lit)
		var diffs []string
		if !ok {
			diffs = append(diffs, "non-constant entry")
		}
		for k, w := range t.want {
			g, has := got[k]
			if !has {
				diffs = append(diffs, fmt.Sprintf("option %d missing", k))
				continue
			}
			if g["MinLen"] != w.min || g["MaxLen"] != w.max || g["ValueFormat"] != w.format {
				diffs = append(diffs, fmt.Sprintf("option %d is {min %d max %d format %d}, RFC says {min %d max %d format %d}", k, g["MinLen"], g["MaxLen"], g["ValueFormat"], w.min, w.max, w.format))
			}
		}
		for k := range got {
			if _, has := t.want[k]; !has {
				diffs = append(diffs, fmt.Sprintf("unexpected option %d", k))
			}
		}
		sort.Strings(diffs)
		e.R.Check(len(diffs) == 0, rule, "message."+t.name+":table", e.P.Pos(pos), fmt.Sprintf("%d entries equal the RFC registry", len(got)), strings.Join(diffs, "; "))
		w := globalWriters(e, "message", t.name)
		e.R.Check(len(w) == 0, rule, "message."+t.name+":single-writer", e.P.Pos(pos), "only the initialiser writes the table", "modified at run time by "+strings.Join(w, ", "))
	}
	// Option.Unmarshal skips exactly on len ∉ [Min,Max] (or unknown format) of a registered option – decided on the truth table of
	// the function over the facts {registered, unknown format, len < MinLen, len > MaxLen}, whatever shape the tests are written in
	if f := e.fn(rule, "message.Option.Unmarshal"); f != nil {
		fieldOf := func(v ssa.Value) string {
			v = core.Unwrap(v)
			if fv, ok := v.(*ssa.Field); ok {
				_, fl, _ := core.FieldOf(fv)
				return fl
			}
			if ld, ok := v.(*ssa.UnOp); ok {
				_, fl, _ := core.FieldOf(ld.X)
				return fl
			}
			return ""
		}
		bf := &core.BoolFn{Fn: f,
			AtomOf: func(v ssa.Value) (string, bool, bool) {
				if ex, ok := v.(*ssa.Extract); ok && ex.Index == 1 {
					if _, isL := ex.Tuple.(*ssa.Lookup); isL {
						return "registered", false, true
					}
				}
				c, ok := core.AsCmp(v)
				if !ok {
					return "", false, false
				}
				x, y, op := c.X, c.Y, c.Op
				if fieldOf(x) != "" && fieldOf(y) == "" {
					x, y, op = y, x, core.SwapOp(op)
				}
				switch fieldOf(y) {
				case "MinLen":
					switch op {
					case token.LSS:
						return "below-min", false, true
					case token.GEQ:
						return "below-min", true, true
					}
				case "MaxLen":
					switch op {
					case token.GTR:
						return "above-max", false, true
					case token.LEQ:
						return "above-max", true, true
					}
				}
				if fieldOf(x) == "ValueFormat" || fieldOf(y) == "ValueFormat" {
					if k, isK := core.ConstInt(y); isK && k == 0 || func() bool { k2, isK2 := core.ConstInt(x); return isK2 && k2 == 0 }() {
						_ = k
						switch op {
						case token.EQL:
							return "unknown-format", false, true
						case token.NEQ:
							return "unknown-format", true, true
						}
					}
				}
				return "", false, false
			},
			Event: func(in ssa.Instruction) string {
				if st, ok := in.(*ssa.Store); ok {
					if _, fl, isF := core.FieldOf(st.Addr); isF && fl == "ID" {
						return "kept"
					}
				}
				return ""
			}}
		checkTruth(e, rule, "message.Option.Unmarshal:length-window", bf,
			func(r core.BoolRow) bool { return r.Events["kept"] },
			func(a map[string]bool) bool {
				return !(a["registered"] && (a["unknown-format"] || a["below-min"] || a["above-max"]))
			},
			"an option is skipped ⇔ it is registered ∧ (format unknown ∨ len < MinLen ∨ len > MaxLen): the bounds themselves are legal", "the legal-length window is no longer [MinLen, MaxLen] with both bounds inclusive")
	}
}

// checkDecoderAssignsAll: a decoder writes into a destination that may be a recycled message (the de-duplication replay decodes
// the cached reply into the response that already carries the request's token). Every header field it is responsible for must
// be stored on every successful return – a field assigned only "when present" keeps the destination's old value.
func checkDecoderAssignsAll(e *Env, rule string) {
	for _, it := range []struct {
		fn     string
		param  int
		fields []string
	}{
		{"udp/coder.Coder.Decode", 2, []string{"Payload", "Code", "Token", "Type", "MessageID"}},
		{"tcp/coder.Coder.DecodeWithHeader", 3, []string{"Code", "Token"}},
	} {
		f := e.fn(rule, it.fn)
		if f == nil || it.param >= len(f.Params) {
			continue
		}
		dst := f.Params[it.param]
		for _, fld := range it.fields {
			field := fld
			q := &core.PathQuery{Fn: f,
				Stop: func(in ssa.Instruction) bool {
					st, ok := in.(*ssa.Store)
					if !ok {
						return false
					}
					fa, isFA := st.Addr.(*ssa.FieldAddr)
					if !isFA || core.Resolve(fa.X) != ssa.Value(dst) {
						return false
					}
					_, name, okF := core.FieldOf(fa)
					return okF && name == field
				},
				Target: func(in ssa.Instruction) bool {
					ret, ok := in.(*ssa.Return)
					return ok && len(ret.Results) > 0 && core.IsNilConst(core.RetVal(ret, len(ret.Results)-1))
				}}
			w := q.Find()
			e.R.Check(w == nil, rule, it.fn+":assigns "+field, e.fpos(f), "m."+field+" is stored on every successful return", "a successful decode can leave m."+field+" of the (possibly recycled) destination untouched: "+e.trace(w))
		}
	}
}

// cursorLinearity: inside a decoder, two sub-parsers whose consumed-byte counts are both used must not be given the same
// cursor value – the second has to start where the first stopped (cursor[count:]). Passing the same slice twice parses the
// first field's bytes again as the second field.
func cursorLinearity(e *Env, rule string) {
	sums := c02Summaries()
	n := 0
	for _, q := range c02Decoders {
		f := e.P.Func(q)
		if f == nil {
			continue
		}
		for _, g := range append(core.WithAnon(f), core.AbsorbedInto(f)...) {
			type pc struct {
				c      *ssa.Call
				cursor ssa.Value
				used   bool
			}
			var calls []pc
			core.InstrsOwn(g, func(in ssa.Instruction) {
				c, ok := in.(*ssa.Call)
				if !ok {
					return
				}
				sm, isSum := sums[core.CalleeName(c)]
				if !isSum || sm.Param >= core.NArgs(c) {
					return
				}
				used := false
				for _, r := range core.Referrers(c) {
					if ex, isEx := r.(*ssa.Extract); isEx && ex.Index == sm.Ret {
						for _, r2 := range core.Referrers(ex) {
							if _, isDbg := r2.(*ssa.DebugRef); !isDbg {
								used = true
							}
						}
					}
				}
				calls = append(calls, pc{c, core.Unwrap(core.Arg(c, sm.Param)), used})
			})
			bad := ""
			for i, a := range calls {
				for j, b := range calls {
					if i == j || !a.used || !b.used || a.cursor != b.cursor {
						continue
					}
					if reachableFrom(g, a.c, b.c) {
						bad = fmt.Sprintf("%s at %s and %s at %s are both given the same cursor although both counts are used: the second re-parses the first one's bytes", shortType(core.CalleeName(a.c)), e.pos(a.c), shortType(core.CalleeName(b.c)), e.pos(b.c))
					}
				}
			}
			if len(calls) >= 2 {
				n++
				e.R.Check(bad == "", rule, core.FnName(g)+":cursor-linear", e.fpos(g), fmt.Sprintf("%d sub-parser calls, each on its own cursor value", len(calls)), bad)
			}
		}
	}
	if n == 0 {
		e.R.Undecided(rule, "decoders:cursor-linear", "-", "no decoder with two sub-parser calls found")
	}
}

package rules

import (
	"fmt"
	"go/token"
	"go/types"
	"strings"

	"coapcheck/internal/core"

	"golang.org/x/tools/go/ssa"
)

// Rules added after the fifth round of independently seeded changes (contract mistakes between two pieces of code that each look
// fine alone). Several are existing rules of a neighbouring property that the change's own property needs as well (borrow).

// Round5 is called for every configuration after the property's own rules (main.go).
func Round5(e *Env, id string) {
	r := e.R
	reg := func(rule, engine, text string, min int, run func(rule string)) {
		r.Rule(rule, engine, text, min)
		if e.want(rule) {
			run(rule)
		}
	}
	switch id {
	case "C01":
		reg("C01.R7", "shared", "an option's legal length is judged against the registry the decoder was given (= C02.R6): the stream decoder passes per-code signalling registries", 3, func(rule string) { borrow(e, "C02", "C02.R6", rule) })
	case "C02":
		reg("C02.R9", "shared", "a short header read means 'wait', an oversized frame is refused on its header, nothing of the header is used before the parser's error was looked at (= C07.R1, C07.R4)", 4, func(rule string) {
			borrow(e, "C07", "C07.R1", rule)
			borrow(e, "C07", "C07.R4", rule)
		})
	case "C03":
		reg("C03.R8", "shared", "a partial body lives exactly as long as its request (= C04.R14): an earlier exchange's blocks are not continued by a later request with the same token", 1, func(rule string) { requestDeadlineGovernsReassembly(e, rule) })
	case "C04":
		reg("C04.R16", "shared", "registrations of a transfer are store-if-absent with the duplicate refused and the owner's entry kept (= C13.R1 on the two block-wise tables)", 4, func(rule string) { borrowMatching(e, "C13", "C13.R1", rule, "net/blockwise.") })
	case "C05":
		reg("C05.R9", "shared", "the expiry sweep hands back what is in the map now, never its own snapshot (= C14.R4)", 1, func(rule string) { borrow(e, "C14", "C14.R4", rule) })
	case "C06":
		reg("C06.R9", "who-may-write", "the transmission parameters are written only by copying the same-named setting (0 retransmissions stays 0)", 1, func(rule string) {
			settingsOnlyCopied(e, rule, []string{"TransmissionNStart", "TransmissionAcknowledgeTimeout", "TransmissionMaxRetransmit"})
		})
	case "C07":
		reg("C07.R11", "who-may-write+paths", "the session's receive limit is written by its constructor only; a frame whose options decoded is never refused afterwards", 2, func(rule string) {
			receiveLimitSetOnce(e, rule)
			noRefusalAfterOptions(e, rule)
		})
	case "C08":
		reg("C08.R8", "flows", "Message.Token hands out a private copy; a notification is dispatched only to the observation found in the table under its token", 2, func(rule string) {
			tokenIsPrivateCopy(e, rule)
			dispatchOnlyFromTable(e, rule)
		})
	case "C09":
		reg("C09.R10", "flows", "same-typed arguments reach the parameter they are named after (the session's context is the connection's, not the done context)", 2, func(rule string) { sessionContextRoles(e, rule) })
	case "C10":
		reg("C10.R10", "flows+locks", "the listener's local address is copied before the arrival's destination is written into it; a callback of Range2 (read lock held) never mutates the same map", 2, func(rule string) {
			localAddrIsCopied(e, rule)
			range2CallbackReadsOnly(e, rule)
		})
	case "C11":
		reg("C11.R10", "flows+paths", "the connection's context and its done context reach the session in their own roles (a cancelled parent closes the connection instead of silencing its reader); a handler-shaped forwarder hands a message on at most once per path", 3, func(rule string) {
			sessionContextRoles(e, rule)
			forwardsAtMostOnce(e, rule)
		})
	case "C12":
		reg("C12.R9", "shared", "bytes kept beyond the exchange are a private copy of the pooled message's buffer (= C05.R6); retransmissions send a clone of the stored copy (= C06.R3)", 4, func(rule string) {
			borrow(e, "C05", "C05.R6", rule)
			borrow(e, "C06", "C06.R3", rule)
		})
	case "C13":
		reg("C13.R6", "shared+paths", "the retransmission counter advances when a copy falls due, whether or not its write succeeds (= C06.R2); a pong takes its continuation out of the table", 3, func(rule string) {
			borrow(e, "C06", "C06.R2", rule)
			pongTakesContinuation(e, rule)
		})
	case "C14":
		reg("C14.R7", "paths", "LoadAndDeleteAll detaches: on every path the map gets fresh storage before the old one is handed out", 1, func(rule string) { drainDetaches(e, rule) })
	case "C15":
		reg("C15.R8", "flows+paths", "a typed setter that fails reports the encoder's needed size (the pooled builder grows by it and retries); the path join writes every segment it counted", 3, func(rule string) {
			failedSetterReportsNeededSize(e, rule)
			joinWritesEverySegment(e, rule)
		})
	case "C16":
		reg("C16.R10", "flows+who-may-write", "each limit's `<= 0 ⇒ unlimited` default is applied to the limit that was tested; the limit settings are written only by copying", 3, func(rule string) {
			limitDefaultsOwnVariable(e, rule)
			settingsOnlyCopied(e, rule, []string{"LimitClientParallelRequests", "LimitClientEndpointParallelRequests"})
		})
	case "C17":
		reg("C17.R6", "flows+paths", "Use appends to the chain; every successful Handle has written the route table", 2, func(rule string) {
			useAppends(e, rule)
			handleWritesTable(e, rule)
		})
	case "C18":
		reg("C18.R8", "paths", "a connection's activity clock starts after the handshake; Notify records the time unconditionally", 2, func(rule string) {
			monitorAfterHandshake(e, rule)
			notifyStoresAlways(e, rule)
		})
	case "C19":
		reg("C19.P11", "flows", "the BERT buffer is bounded by the maximum message size parameter", 2, func(rule string) { bufferBoundIsMaxMessageSize(e, rule) })
	case "C20":
		reg("C20.R7", "shared", "a replayed reply decodes into the response completely and from a private copy (= C05.R7, C05.R6): a suppressed response's bare ACK stays a bare ACK", 3, func(rule string) {
			borrow(e, "C05", "C05.R7", rule)
			borrow(e, "C05", "C05.R6", rule)
		})
	}
}

// borrowMatching borrows only the obligations whose construct contains sub.
func borrowMatching(e *Env, fromProp, fromRule, asRule, sub string) {
	pr := Registry[fromProp]
	if pr == nil {
		e.R.Undecided(asRule, "borrow:"+fromRule, "-", "property "+fromProp+" is not registered")
		return
	}
	tmp := core.NewReport(fromProp, e.Tier, pr.Level)
	tmp.SetConfig(e.R.CurConfig())
	sub2 := &Env{P: e.P, R: tmp, Tier: e.Tier, Only: fromRule, Primary: e.Primary}
	if !sub2.Primary && pr.RunExtra != nil {
		pr.RunExtra(sub2)
	} else {
		pr.Run(sub2)
	}
	flt := core.NewReport(fromProp, e.Tier, pr.Level)
	flt.SetConfig(e.R.CurConfig())
	for _, o := range tmp.Obls {
		if o.Rule == fromRule && strings.Contains(o.Key, sub) {
			flt.Obls = append(flt.Obls, o)
		}
	}
	if e.R.Borrow(flt, fromRule, asRule) == 0 {
		e.R.Undecided(asRule, "borrow:"+fromRule, "-", "the shared rule "+fromRule+" produced no obligation for "+sub)
	}
}

// fieldNameOf: the field a value is loaded from / an address denotes ("" if none).
func fieldNameOf(v ssa.Value) string {
	v = core.Unwrap(v)
	switch x := v.(type) {
	case *ssa.UnOp:
		if x.Op == token.MUL {
			_, fl, ok := core.FieldOf(x.X)
			if ok {
				return fl
			}
		}
	case *ssa.Field:
		_, fl, ok := core.FieldOf(x)
		if ok {
			return fl
		}
	case *ssa.FieldAddr:
		_, fl, ok := core.FieldOf(x)
		if ok {
			return fl
		}
	}
	return ""
}

// settingsOnlyCopied: a store into a field with one of the given names stores the value of a same-named field, of a same-named
// parameter, or – inside package options – the argument of the option that sets it. Anything else rewrites the user's setting.
func settingsOnlyCopied(e *Env, rule string, fields []string) {
	want := map[string]bool{}
	for _, f := range fields {
		want[f] = true
	}
	n, bad := 0, ""
	for _, f := range e.P.AllSrcFuncs(false) {
		name := core.FnName(f)
		if strings.HasPrefix(name, "examples/") {
			continue
		}
		core.InstrsOwn(f, func(in ssa.Instruction) {
			st, ok := in.(*ssa.Store)
			if !ok {
				return
			}
			fl := fieldNameOf(st.Addr)
			if !want[fl] {
				return
			}
			n++
			if strings.HasPrefix(name, "options.") || strings.HasPrefix(name, "options/") {
				return // the option setters
			}
			v := core.Unwrap(st.Val)
			if fieldNameOf(v) == fl {
				return
			}
			if p, isP := v.(*ssa.Parameter); isP && strings.EqualFold(p.Name(), fl) {
				return
			}
			if _, isK := v.(*ssa.Const); isK && (strings.Contains(name, ".init") || strings.Contains(name, "DefaultConfig")) {
				return
			}
			bad = fmt.Sprintf("%s overwrites the setting %s at %s with a value that is not the setting itself (a legal value such as 0 is replaced)", name, fl, e.pos(st))
		})
		// … and no setting is "defaulted" under a test of its own value: 0 is a legal value of these settings
		core.InstrsOwn(f, func(in ssa.Instruction) {
			st, ok := in.(*ssa.Store)
			if !ok || !want[fieldNameOf(st.Addr)] || strings.HasPrefix(name, "options.") || strings.HasPrefix(name, "options/") {
				return
			}
			fl := fieldNameOf(st.Addr)
			if _, g := core.GuardedBy(st, func(cond ssa.Value) core.CondMatch {
				c, isC := core.AsCmp(cond)
				if !isC {
					return core.CondMatch{}
				}
				for _, xy := range [][2]ssa.Value{{c.X, c.Y}, {c.Y, c.X}} {
					if _, isK := core.ConstInt(xy[1]); isK && fieldNameOf(xy[0]) == fl {
						return core.CondMatch{Match: true, Branch: true}
					}
				}
				return core.CondMatch{}
			}); !g {
				return
			}
			bad = fmt.Sprintf("%s overwrites the setting %s at %s with a value that is not the setting itself (a legal value such as 0 is replaced)", name, fl, e.pos(st))
		})
	}
	e.R.Check(bad == "" && n >= 1, rule, "settings:"+strings.Join(fields, ",")+":only-copied", "-", fmt.Sprintf("%d stores into these settings, each a copy of the same-named setting (or an option setter)", n), bad)
}

// tokenIsPrivateCopy (C08, C12): pool.Message.Token returns a fresh slice, never the message's own.
func tokenIsPrivateCopy(e *Env, rule string) {
	q := "message/pool.Message.Token"
	f := e.fn(rule, q)
	if f == nil {
		return
	}
	bad, n := "", 0
	for _, ret := range core.ReturnsOf(f) {
		v := core.RetVal(ret, 0)
		if core.IsNilConst(v) {
			continue
		}
		n++
		for _, l := range rawPhiLeaves(core.Resolve(v)) {
			if core.IsNilConst(l) {
				continue
			}
			if fieldNameOf(l) != "" {
				bad = "Token() returns the message's own token slice at " + e.pos(ret) + ": whoever keeps it (an observation, a cache key) sees it change when the message is reused"
			} else if !isFreshSlice(l) {
				bad = "Token() does not return a freshly allocated copy at " + e.pos(ret)
			}
		}
	}
	e.R.Check(bad == "" && n >= 1, rule, q+":private-copy", e.fpos(f), "every non-nil result is a freshly allocated copy", bad)
}

func isFreshSlice(v ssa.Value) bool {
	v = core.Resolve(core.Unwrap(v))
	switch x := v.(type) {
	case *ssa.MakeSlice:
		return true
	case *ssa.Slice:
		if _, ok := x.X.(*ssa.Alloc); ok {
			return true
		}
		return isFreshSlice(x.X)
	case *ssa.Call:
		if b, ok := x.Call.Value.(*ssa.Builtin); ok && b.Name() == "append" {
			return isFreshSlice(x.Call.Args[0])
		}
		n := core.CalleeName(x)
		return n == "bytes.Clone" || n == "slices.Clone"
	case *ssa.Phi:
		for _, ed := range x.Edges {
			if !isFreshSlice(ed) && !core.IsNilConst(ed) {
				return false
			}
		}
		return true
	}
	return false
}

// dispatchOnlyFromTable (C08): the observation a notification is given to is the one the table holds under the notification's
// token right now – not one remembered from an earlier message (which a Cancel in between would not invalidate).
func dispatchOnlyFromTable(e *Env, rule string) {
	q := "net/observation.Handler.Handle"
	f := e.fn(rule, q)
	if f == nil {
		return
	}
	n, bad := 0, ""
	core.Instrs(f, func(in ssa.Instruction) {
		c, ok := in.(*ssa.Call)
		if !ok || !strings.HasSuffix(core.CalleeName(c), "observation.Observation.handle") {
			return
		}
		n++
		for _, l := range valueLeaves(core.Resolve(core.Arg(c, 0))) {
			ex, isEx := l.(*ssa.Extract)
			if isEx {
				if lc, isC := ex.Tuple.(*ssa.Call); isC {
					if _, isLookup := observationLookup(e, lc); isLookup {
						continue
					}
				}
			}
			bad = "the observation dispatched to at " + e.pos(c) + " does not come from a lookup in the observation table (a cancelled observation can still be reached)"
		}
	})
	e.R.Check(bad == "" && n >= 1, rule, q+":dispatch-from-table", e.fpos(f), "the receiver of a notification is the table's current entry for its token", bad)
}

// sessionContextRoles (C09): at every construction of a datagram session the parameter `ctx` (cancelled by Close, parent of every
// blocking wait) and the parameter `doneCtx` get the argument of that role: an argument that is a field or parameter named like the
// OTHER parameter is a swap.
func sessionContextRoles(e *Env, rule string) {
	callee := "udp/server.NewSession"
	n := 0
	for _, f := range e.P.AllSrcFuncs(false) {
		if strings.HasPrefix(core.FnName(f), "examples/") {
			continue
		}
		for _, c := range core.CallsNamed(f, callee) {
			g := core.StaticFn(c)
			if g == nil {
				continue
			}
			n++
			bad := ""
			for i, p := range g.Params {
				if i >= core.NArgs(c) {
					break
				}
				an := argName(core.Arg(c, i))
				if an == "" || strings.EqualFold(an, p.Name()) {
					continue
				}
				for j, p2 := range g.Params {
					if j != i && types.Identical(p.Type(), p2.Type()) && strings.EqualFold(an, p2.Name()) {
						bad = fmt.Sprintf("argument %d (%s) is what parameter %q is named after but is passed as %q", i, an, p2.Name(), p.Name())
					}
				}
			}
			e.R.Check(bad == "", rule, core.FnName(f)+"→NewSession:argument-roles", e.pos(c.(ssa.Instruction)), "same-typed arguments are in the order of the parameters they are named after", "swapped same-typed arguments: "+bad+" – the connection's context no longer ends with its parent and Done() fires at once")
		}
	}
	if n == 0 {
		e.R.Undecided(rule, "NewSession:sites", "-", "no construction site of "+callee)
	}
}

// argName: the name a value is known by: a parameter's, a field's.
func argName(v ssa.Value) string {
	v = core.Unwrap(v)
	if p, ok := v.(*ssa.Parameter); ok {
		return p.Name()
	}
	return fieldNameOf(v)
}

// localAddrIsCopied (C10): the address getListenerLocalAddr returns is written to by Serve (destination of the arrival), so it must
// be a private copy of the listener's address.
func localAddrIsCopied(e *Env, rule string) {
	q := "udp/server.Server.getListenerLocalAddr"
	f := e.fn(rule, q)
	if f == nil {
		return
	}
	n, bad := 0, ""
	for _, ret := range core.ReturnsOf(f) {
		if len(ret.Results) != 2 || !core.IsNilConst(core.RetVal(ret, 1)) {
			continue
		}
		n++
		if _, isAlloc := core.Resolve(core.RetVal(ret, 0)).(*ssa.Alloc); !isAlloc {
			bad = "the listener's own address object is returned at " + e.pos(ret) + ": writing one arrival's destination into it changes the key every other peer's datagrams are filed under"
		}
	}
	e.R.Check(bad == "" && n >= 1, rule, q+":returns-copy", e.fpos(f), "a fresh copy of the listener's address is returned", bad)
}

// range2CallbackReadsOnly (C10, C14): Map.Range2 holds the read lock while it calls back; a callback that deletes or stores in the
// same map waits for the write lock of the RWMutex it already read-holds – for ever.
func range2CallbackReadsOnly(e *Env, rule string) {
	n, bad := 0, ""
	for _, f := range e.P.AllSrcFuncs(false) {
		if strings.HasPrefix(core.FnName(f), "examples/") || strings.HasPrefix(core.FnName(f), "pkg/sync.") {
			continue
		}
		for _, c := range core.CallsNamed(f, "pkg/sync.Map.Range2") {
			n++
			cb := core.FuncArgClosure(core.Arg(c, 1))
			if cb == nil {
				continue
			}
			table := tableOf(c)
			seen := map[*ssa.Function]bool{}
			var scan func(g *ssa.Function, d int)
			scan = func(g *ssa.Function, d int) {
				if seen[g] || d > 3 || len(g.Blocks) == 0 {
					return
				}
				seen[g] = true
				for _, h := range core.WithAnon(g) {
					core.InstrsOwn(h, func(in ssa.Instruction) {
						ci, ok := in.(ssa.CallInstruction)
						if !ok {
							return
						}
						name := core.CalleeName(ci)
						if strings.HasPrefix(name, "pkg/sync.Map.") && mapMutators[name] && tableOf(ci) == table {
							bad = fmt.Sprintf("the Range2 callback at %s reaches %s on the same map at %s with the read lock held (self-deadlock on the expiry path)", e.pos(c.(ssa.Instruction)), shortType(name), e.pos(in))
						}
						if callee := core.StaticFn(ci); callee != nil && callee.Pkg == f.Pkg {
							scan(callee, d+1)
						}
					})
				}
			}
			scan(cb, 0)
		}
	}
	if n == 0 {
		e.R.OkTrivial(rule, "Range2:callbacks-read-only", "-", "no use of Range2 in the library")
		return
	}
	e.R.Check(bad == "", rule, "Range2:callbacks-read-only", "-", fmt.Sprintf("%d Range2 callbacks, none mutates the map it iterates", n), bad)
}

// pongTakesContinuation (C13): the continuation of an answered ping is removed from the token table by the pong itself.
func pongTakesContinuation(e *Env, rule string) {
	q := "tcp/client.Conn.handleSignals"
	f := e.fn(rule, q)
	if f == nil {
		return
	}
	// the arm for code Pong (227): an If on `code == 227` / a switch edge; on it LoadAndDelete on the token table must be passed
	n, bad := 0, ""
	for _, i := range core.IfsOf(f) {
		c, ok := core.EdgeFacts(i, true)
		if !ok || c.Op != token.EQL {
			continue
		}
		k, isK := core.ConstInt(c.Y)
		if !isK || k != 227 {
			continue
		}
		n++
		guard := i
		w := (&core.PathQuery{Fn: f, From: guard, EdgeOK: func(x *ssa.If, br bool) bool { return x != guard || br },
			Stop: func(in ssa.Instruction) bool {
				cl, isC := in.(*ssa.Call)
				return isC && core.CalleeName(cl) == "pkg/sync.Map.LoadAndDelete" && strings.HasSuffix(tableOf(cl), ".tokenHandlerContainer")
			},
			Target: core.IsReturn}).Find()
		if w != nil {
			bad = "a pong is handled without taking the ping's continuation out of the token table: " + e.trace(w)
		}
	}
	e.R.Check(bad == "" && n >= 1, rule, q+":pong-takes-continuation", e.fpos(f), "on the Pong arm the continuation is taken with LoadAndDelete", bad)
}

// drainDetaches (C14): LoadAndDeleteAll.
func drainDetaches(e *Env, rule string) {
	q := "pkg/sync.Map.LoadAndDeleteAll"
	f := e.fn(rule, q)
	if f == nil {
		return
	}
	var load ssa.Instruction
	core.Instrs(f, func(in ssa.Instruction) { // including a swap helper analysed as part of the drain
		if ld, ok := in.(*ssa.UnOp); ok && ld.Op == token.MUL && fieldNameOf(ld) == "data" && load == nil {
			load = ld
		}
	})
	if load == nil {
		e.R.Undecided(rule, q+":detaches", e.fpos(f), "the storage is not read from the data field")
		return
	}
	w := (&core.PathQuery{Fn: f, From: load, Target: core.IsReturn, Stop: func(in ssa.Instruction) bool {
		st, ok := in.(*ssa.Store)
		if !ok || fieldNameOf(st.Addr) != "data" {
			return false
		}
		if _, isMk := core.Resolve(st.Val).(*ssa.MakeMap); isMk {
			return true
		}
		if alts := core.ResolveIn(f, st.Val); len(alts) == 1 {
			_, isMk := alts[0].(*ssa.MakeMap)
			return isMk
		}
		return false
	}}).Find()
	e.R.Check(w == nil, rule, q+":detaches", e.fpos(f), "fresh storage is installed on every path before the old one is returned", "the storage handed to the caller can stay the map's live storage: a later Store shows up in a result already returned, and the next drain hands the same object out again: "+e.trace(w))
}

// failedSetterReportsNeededSize (C15).
func failedSetterReportsNeededSize(e *Env, rule string) {
	for _, q := range []string{"message.Options.SetUint32", "message.Options.AddUint32"} {
		f := e.fn(rule, q)
		if f == nil {
			continue
		}
		var enc *ssa.Call
		for _, c := range core.CallsNamed(f, "message.EncodeUint32") {
			enc, _ = c.(*ssa.Call)
		}
		n, bad := 0, ""
		for _, ret := range core.ReturnsOf(f) {
			if len(ret.Results) != 3 || core.IsNilConst(core.RetVal(ret, 2)) {
				continue
			}
			n++
			ex, isEx := core.Resolve(core.RetVal(ret, 1)).(*ssa.Extract)
			if !isEx || enc == nil || ex.Tuple != ssa.Value(enc) || ex.Index != 0 {
				bad = "the failing return at " + e.pos(ret) + " does not report the encoder's needed size: the pooled builder grows its buffer by that number and retries"
			}
		}
		e.R.Check(bad == "" && n >= 1 && enc != nil, rule, q+":reports-needed-size", e.fpos(f), "on failure the count is the encoder's", bad)
	}
}

// limitDefaultsOwnVariable (C16): in New, `limit <= 0` makes limit unlimited and `endpointLimit <= 0` makes endpointLimit unlimited.
func limitDefaultsOwnVariable(e *Env, rule string) {
	q := lpr[:strings.LastIndex(lpr, ".")] + ".New"
	f := e.fn(rule, q)
	if f == nil {
		return
	}
	check := func(what string, v ssa.Value, p *ssa.Parameter) {
		ok, why := false, what+" is not `param, or unlimited when param <= 0`"
		// the normalisation moved into a helper: `limit = normalize(param)` – the helper's returns are its parameter or the
		// constant, selected by a test of that parameter only
		if call, isCall := core.Unwrap(v).(*ssa.Call); isCall && p != nil {
			if h := core.AbsorbedCallee(call); h != nil && h.Signature.Results().Len() == 1 {
				k := -1
				for i, a := range call.Call.Args {
					if core.Unwrap(a) == ssa.Value(p) {
						k = i
					}
				}
				if k >= 0 && k < len(h.Params) {
					hp := h.Params[k]
					hasParam, hasMax, other := false, false, false
					for _, ret := range core.ReturnsOf(h) {
						for _, l := range valueLeaves(core.RetVal(ret, 0)) {
							switch x := core.Unwrap(l).(type) {
							case *ssa.Parameter:
								if x == hp {
									hasParam = true
								} else {
									other = true
								}
							case *ssa.Const:
								hasMax = true
							default:
								other = true
							}
						}
					}
					tested, foreign := false, false
					for _, i := range core.IfsOf(h) {
						if i.Parent() != h {
							continue
						}
						c, isC := core.AsCmp(i.Cond)
						if !isC {
							continue
						}
						switch x := core.Unwrap(c.X).(type) {
						case *ssa.Parameter:
							if x == hp {
								tested = true
							} else {
								foreign = true
							}
						}
					}
					ok = hasParam && hasMax && !other && tested && !foreign
					if foreign {
						why = what + " becomes unlimited under a test of another parameter"
					}
				}
			}
		}
		if ph, isPhi := core.Unwrap(v).(*ssa.Phi); isPhi && p != nil {
			hasParam, hasMax, otherLeaf := false, false, false
			for _, l := range rawPhiLeaves(ph) {
				switch x := l.(type) {
				case *ssa.Parameter:
					if x == p {
						hasParam = true
					} else {
						otherLeaf = true
					}
				case *ssa.Const:
					hasMax = true
				default:
					otherLeaf = true
				}
			}
			tested := false
			for _, i := range core.IfsOf(f) {
				c, isC := core.AsCmp(i.Cond)
				if isC && core.Unwrap(c.X) == ssa.Value(p) && i.Block().Dominates(ph.Block()) {
					tested = true
				}
			}
			ok = hasParam && hasMax && !otherLeaf && tested
			// every test that selects the constant must be on this parameter: walk the φ-chain
			var walk func(x *ssa.Phi)
			walk = func(x *ssa.Phi) {
				for k, ed := range x.Edges {
					if _, isK := ed.(*ssa.Const); isK {
						pred := x.Block().Preds[k]
						for _, i := range core.IfsOf(f) {
							c, isC := core.AsCmp(i.Cond)
							if !isC || len(pred.Instrs) == 0 {
								continue
							}
							if (i.Block() == pred || core.OnlyViaEdge(i, true, pred.Instrs[len(pred.Instrs)-1])) && core.Unwrap(c.X) != ssa.Value(p) {
								if _, isParam := core.Unwrap(c.X).(*ssa.Parameter); isParam {
									ok, why = false, what+" becomes unlimited under a test of another parameter"
								}
							}
						}
					}
					if p2, isP2 := ed.(*ssa.Phi); isP2 {
						walk(p2)
					}
				}
			}
			walk(ph)
		}
		e.R.Check(ok, rule, q+":"+what+"-default", e.fpos(f), what+" = parameter, or unlimited exactly when that parameter is <= 0", why+": one limit is switched off (or never switched off) by the other's setting")
	}
	var limitP, endpointP *ssa.Parameter
	for _, p := range f.Params {
		switch p.Name() {
		case "limit":
			limitP = p
		case "endpointLimit":
			endpointP = p
		}
	}
	for _, c := range core.CallsNamed(f, "golang.org/x/sync/semaphore.NewWeighted") {
		check("limit", core.Arg(c, 0), limitP)
	}
	core.Instrs(f, func(in ssa.Instruction) {
		if st, ok := in.(*ssa.Store); ok && fieldNameOf(st.Addr) == "endpointLimit" {
			check("endpointLimit", st.Val, endpointP)
		}
	})
}

// useAppends (C17): Router.Use keeps registration order: it appends the new middlewares to the existing chain.
func useAppends(e *Env, rule string) {
	q := "mux.Router.Use"
	f := e.fn(rule, q)
	if f == nil {
		return
	}
	n, bad := 0, ""
	core.Instrs(f, func(in ssa.Instruction) {
		st, ok := in.(*ssa.Store)
		if !ok || fieldNameOf(st.Addr) != "middlewares" {
			return
		}
		n++
		ap, isC := core.Resolve(st.Val).(*ssa.Call)
		if !isC {
			bad = "the chain is not extended by append"
			return
		}
		if b, isB := ap.Call.Value.(*ssa.Builtin); !isB || b.Name() != "append" || fieldNameOf(ap.Call.Args[0]) != "middlewares" {
			bad = "the new middlewares are not appended to the existing chain (they are put in front of it or replace it): with two Use calls the wrapping order is no longer the registration order"
		}
	})
	e.R.Check(bad == "" && n >= 1, rule, q+":appends", e.fpos(f), "middlewares = append(middlewares, new...)", bad)
}

// handleWritesTable (C17): every successful Handle has put the route (with the handler it was given) into the table.
func handleWritesTable(e *Env, rule string) {
	q := "mux.Router.Handle"
	f := e.fn(rule, q)
	if f == nil {
		return
	}
	w := (&core.PathQuery{Fn: f, Target: func(in ssa.Instruction) bool {
		ret, ok := in.(*ssa.Return)
		return ok && len(ret.Results) == 1 && core.IsNilConst(core.RetVal(ret, 0))
	}, Stop: func(in ssa.Instruction) bool {
		mu, ok := in.(*ssa.MapUpdate)
		return ok && fieldNameOf(mu.Map) == "z"
	}}).Find()
	e.R.Check(w == nil, rule, q+":success-writes-table", e.fpos(f), "every nil return comes after a write of the route table", "Handle can report success without having written the route table (a handler set on a copy of the route is lost): "+e.trace(w))
}

// monitorAfterHandshake (C18): in the DTLS server the inactivity monitor (whose clock starts at construction) is created after the
// handshake, not before.
func monitorAfterHandshake(e *Env, rule string) {
	q := "dtls/server.Server.serveConnection"
	f := e.fn(rule, q)
	if f == nil {
		return
	}
	var create ssa.Instruction
	core.Instrs(f, func(in ssa.Instruction) {
		if c, ok := in.(*ssa.Call); ok {
			if fieldNameOf(c.Call.Value) == "CreateInactivityMonitor" {
				create = c
			}
		}
	})
	if create == nil {
		e.R.Undecided(rule, q+":monitor-after-handshake", e.fpos(f), "monitor construction not found")
		return
	}
	w := (&core.PathQuery{Fn: f, From: create, Target: func(in ssa.Instruction) bool {
		c, ok := in.(*ssa.Call)
		return ok && c.Call.IsInvoke() && strings.HasPrefix(c.Call.Method.Name(), "Handshake")
	}}).Find()
	e.R.Check(w == nil, rule, q+":monitor-after-handshake", e.pos(create), "no handshake runs after the monitor was created", "the inactivity monitor is created before the handshake: a handshake slower than the period makes the first tick close a connection that was just established: "+e.trace(w))
}

// notifyStoresAlways (C18): Monitor.Notify records the current time on every path.
func notifyStoresAlways(e *Env, rule string) {
	q := "net/monitor/inactivity.Monitor.Notify"
	f := e.fn(rule, q)
	if f == nil {
		return
	}
	w := (&core.PathQuery{Fn: f, Target: core.IsReturn, Stop: func(in ssa.Instruction) bool {
		c, ok := in.(*ssa.Call)
		return ok && strings.HasSuffix(core.CalleeName(c), ".Store") && fieldNameOf(core.Arg(c, 0)) == "lastActivity" || ok && strings.HasSuffix(core.CalleeName(c), ".Store") && fieldNameOf(core.Unwrap(core.Arg(c, 0))) == "lastActivity"
	}}).Find()
	e.R.Check(w == nil, rule, q+":stores-always", e.fpos(f), "every path of Notify stores the time", "Notify can return without recording the activity: a message is not counted and the connection is closed up to a fraction of the period early: "+e.trace(w))
}

// bufferBoundIsMaxMessageSize (C19, C04): bufferSize's bound argument is the maximum message size the function was given.
func bufferBoundIsMaxMessageSize(e *Env, rule string) {
	for _, q := range []string{bw + ".Do", bw + ".createSendingMessage"} {
		f := e.fn(rule, q)
		if f == nil {
			continue
		}
		n, bad := 0, ""
		for _, c := range core.CallsNamed(f, "net/blockwise.bufferSize") {
			n++
			p, isP := core.Resolve(core.Arg(c, 1)).(*ssa.Parameter)
			if !isP || p.Name() != "maxMessageSize" {
				bad = "bufferSize at " + e.pos(c.(ssa.Instruction)) + " is not bounded by the maxMessageSize parameter: a BERT block can exceed the maximum message size"
			}
		}
		if n == 0 {
			// the helper may have become a method or been inlined: nothing to decide here, the class table of bufferSize is C19.P8
			e.R.OkTrivial(rule, q+":buffer-bound", e.fpos(f), "no bufferSize call in this shape")
			continue
		}
		e.R.Check(bad == "", rule, q+":buffer-bound", e.fpos(f), "bufferSize(szx, maxMessageSize parameter)", bad)
	}
}

// forwardsAtMostOnce (C11): a function of handler shape that passes its (w, r) on to another handler does so at most once on any
// path – a lost `return` after the first hand-over dispatches the message twice.
func forwardsAtMostOnce(e *Env, rule string) {
	for _, q := range []string{"udp/server.Server.getOrCreateConn", "udp/client.Conn.handle", "tcp/client.Conn.handle", "tcp/client.Conn.blockwiseHandle"} {
		f := e.fn(rule, q)
		if f == nil {
			continue
		}
		fns := core.WithAnon(f)
		core.Instrs(f, func(in ssa.Instruction) {
			if mk, isMk := in.(*ssa.MakeClosure); isMk {
				if w, isF := mk.Fn.(*ssa.Function); isF && strings.HasPrefix(w.Synthetic, "bound method wrapper") {
					core.InstrsOwn(w, func(x ssa.Instruction) {
						if c, isC := x.(ssa.CallInstruction); isC {
							if t := c.Common().StaticCallee(); t != nil && len(t.Blocks) > 0 {
								fns = append(fns, t)
							}
						}
					})
				}
			}
		})
		n, bad := 0, ""
		for _, g := range fns {
			np := len(g.Params)
			if np < 2 || !isPoolMsg(g.Params[np-1]) || !strings.Contains(g.Params[np-2].Type().String(), "ResponseWriter") {
				continue
			}
			w, r := g.Params[np-2], g.Params[np-1]
			isFwd := func(in ssa.Instruction) bool {
				c, ok := in.(*ssa.Call)
				if !ok {
					return false
				}
				a := c.Call.Args
				return len(a) >= 2 && core.Resolve(a[len(a)-1]) == ssa.Value(r) && core.Resolve(a[len(a)-2]) == ssa.Value(w)
			}
			core.Instrs(g, func(in ssa.Instruction) {
				if !isFwd(in) {
					return
				}
				n++
				if wpath := (&core.PathQuery{Fn: g, From: in, Target: isFwd}).Find(); wpath != nil {
					bad = "after the message was handed on at " + e.pos(in) + " a second hand-over is reachable: " + e.trace(wpath)
				}
			})
		}
		if n == 0 {
			e.R.OkTrivial(rule, q+":forwards-at-most-once", e.fpos(f), "no forwarding of (w, r) in this function")
			continue
		}
		e.R.Check(bad == "", rule, q+":forwards-at-most-once", e.fpos(f), fmt.Sprintf("%d hand-over(s), no path passes two", n), bad)
	}
}

// joinWritesEverySegment (C15): Options.path sizes the result with one separator per stored segment; its write loop therefore writes
// a separator and the value for every element it visits – an iteration that skips them leaves the reported length longer than
// what was written (trailing NUL bytes in Path()).
func joinWritesEverySegment(e *Env, rule string) {
	q := "message.Options.path"
	f := e.fn(rule, q)
	if f == nil {
		return
	}
	var sep *ssa.Store
	core.InstrsOwn(f, func(in ssa.Instruction) {
		if st, ok := in.(*ssa.Store); ok {
			if k, isK := core.ConstInt(st.Val); isK && k == '/' {
				if _, isIdx := st.Addr.(*ssa.IndexAddr); isIdx {
					sep = st
				}
			}
		}
	})
	if sep == nil {
		e.R.Undecided(rule, q+":writes-every-segment", e.fpos(f), "no separator store found")
		return
	}
	// the loop test that governs the write loop: the innermost If that dominates the store and is reachable from it again
	var head *ssa.If
	for _, i := range core.IfsOf(f) {
		if i.Parent() != f || !i.Block().Dominates(sep.Block()) {
			continue
		}
		if (&core.PathQuery{Fn: f, From: sep, Target: func(in ssa.Instruction) bool { return in == ssa.Instruction(i) }}).Find() == nil {
			continue
		}
		if head == nil || head.Block().Dominates(i.Block()) {
			head = i
		}
	}
	if head == nil {
		e.R.Undecided(rule, q+":writes-every-segment", e.fpos(f), "the separator is not written inside a loop")
		return
	}
	bad := ""
	for _, want := range []struct {
		what string
		stop func(ssa.Instruction) bool
	}{
		{"the separator", func(in ssa.Instruction) bool { return in == ssa.Instruction(sep) }},
		{"the segment's value", func(in ssa.Instruction) bool {
			c, ok := in.(*ssa.Call)
			if !ok {
				return false
			}
			b, isB := c.Call.Value.(*ssa.Builtin)
			return isB && b.Name() == "copy"
		}},
	} {
		if w := (&core.PathQuery{Fn: f, From: head, Stop: want.stop, Target: func(in ssa.Instruction) bool { return in == ssa.Instruction(head) }}).Find(); w != nil {
			bad = "an iteration of the write loop can pass without writing " + want.what + " although the sizing loop counted it: " + e.trace(w)
		}
	}
	e.R.Check(bad == "", rule, q+":writes-every-segment", e.pos(sep), "every iteration of the write loop writes the separator and the value", bad)
}

// receiveLimitSetOnce (C07): the frame-size limit the framing loop enforces is the configured one: the session's field is written by
// its constructor only (the peer's announced limit is a different thing and lives in another field).
func receiveLimitSetOnce(e *Env, rule string) {
	n, bad := 0, ""
	for _, f := range e.P.AllSrcFuncs(false) {
		name := core.FnName(f)
		if !strings.HasPrefix(name, "tcp/") {
			continue
		}
		core.InstrsOwn(f, func(in ssa.Instruction) {
			st, ok := in.(*ssa.Store)
			if !ok || fieldNameOf(st.Addr) != "maxMessageSize" {
				return
			}
			owner, _, _ := core.FieldOf(st.Addr)
			if !strings.HasSuffix(owner, "client.Session") {
				return
			}
			n++
			top := f
			for top.Parent() != nil {
				top = top.Parent()
			}
			if core.FnName(top) != "tcp/client.NewSession" {
				bad = name + " changes the session's receive limit at " + e.pos(st) + ": frames within the configured maximum are then refused (or larger ones accepted)"
			}
		})
	}
	e.R.Check(bad == "" && n >= 1, rule, "tcp/client.Session.maxMessageSize:set-once", "-", fmt.Sprintf("%d store(s), all in the constructor", n), bad)
}

// noRefusalAfterOptions (C07, C02): once the options of a frame were decoded without error everything that is left is payload – the
// stream decoder has no further reason to refuse the frame.
func noRefusalAfterOptions(e *Env, rule string) {
	q := "tcp/coder.Coder.DecodeWithHeader"
	f := e.fn(rule, q)
	if f == nil {
		return
	}
	var um *ssa.Call
	for _, c := range core.CallsNamed(f, "message.Options.Unmarshal") {
		um, _ = c.(*ssa.Call)
	}
	if um == nil {
		e.R.Undecided(rule, q+":no-refusal-after-options", e.fpos(f), "option decoding not found")
		return
	}
	w := (&core.PathQuery{Fn: f, From: um,
		EdgeOK: func(i *ssa.If, br bool) bool {
			ev, nilBranch, ok := core.ErrNilEdge(i)
			if ok && errSource(ev) == um {
				return br == nilBranch
			}
			return true
		},
		Target: func(in ssa.Instruction) bool {
			ret, ok := in.(*ssa.Return)
			return ok && len(ret.Results) == 2 && !core.IsNilConst(core.RetVal(ret, 1))
		}}).Find()
	e.R.Check(w == nil, rule, q+":no-refusal-after-options", e.pos(um), "after the options decoded, every exit is a success", "a frame whose options decoded correctly can still be refused (a value that merely ends in 0xff is taken for a payload marker): "+e.trace(w))
}

// Package rules holds, per property, the rule instances (tables filled from the
// repository and frozen after reading) and the expectations they are checked against.
package rules

import (
	"encoding/json"
	"fmt"
	"os"
	"os/exec"
	"path/filepath"
	"sort"
	"strings"

	"coapcheck/internal/core"

	"golang.org/x/tools/go/ssa"
)

// Env is what a property's rules get.
type Env struct {
	P       *core.Prog
	R       *core.Report
	Tier    string
	Only    string
	Primary bool // the default configuration (linux/amd64, no tests)
}

// Property describes one property's static check.
type Property struct {
	ID         string
	Title      string
	Level      string // proof | other
	Explain    string // which clauses are decided
	NotDecided string
	Assume     []string
	Run        func(*Env)
	RunExtra   func(*Env) // for non-primary configurations; nil = Run
}

// Registry of all properties.
var Registry = map[string]*Property{}

func register(p *Property) { Registry[p.ID] = p }

// want reports whether rule id should run (replay filter).
func (e *Env) want(id string) bool {
	return e.Only == "" || strings.HasPrefix(id, e.Only)
}

// fn resolves a function anchor; an unresolved anchor is an undecided obligation (never a silent skip).
func (e *Env) fn(rule, q string) *ssa.Function {
	f := e.P.Func(q)
	for i := 0; f == nil && i < 3; i++ {
		// an unexported helper with a single caller may have been merged into that caller: the construct is then looked for there
		up, ok := mergedInto[q]
		if !ok {
			break
		}
		q = up
		f = e.P.FuncQuiet(q)
	}
	if f == nil {
		e.R.Undecided(rule, "anchor:"+q, "-", "anchor function "+q+" not found (renamed or removed): update the rule table")
	}
	return f
}

// mergedInto: unexported single-caller helpers that rules anchor on, and the caller their body lands in when they are inlined.
var mergedInto = map[string]string{
	// (names are assembled from two pieces so that listing a helper here does not make it an anchor of its own – rules/anchors.go)
	nm("message/pool.Message.", "decode"):                                           nm("message/pool.Message.", "UnmarshalWithDecoder"),
	nm("udp/client.Conn.", "getResponseFromCache"):                                  nm("udp/client.Conn.", "checkResponseCache"),
	nm("udp/client.Conn.", "checkResponseCache"):                                    nm("udp/client.Conn.", "handleReq"),
	nm("net/client/limitParallelRequests.LimitParallelRequests.", "cancelEndpoint"): nm("net/client/limitParallelRequests.LimitParallelRequests.", "acquireEndpoint"),
	nm("net/blockwise.BlockWise.", "getPayloadFromCachedReceivedMessage"):           nm("net/blockwise.BlockWise.", "processReceivedMessage"),
	nm("net/blockwise.BlockWise.", "getCachedReceivedMessage"):                      nm("net/blockwise.BlockWise.", "processReceivedMessage"),
	nm("net/blockwise.", "copyToPayloadFromOffset"):                                 nm("net/blockwise.BlockWise.", "processReceivedMessage"),
	nm("net/blockwise.BlockWise.", "getValidUntil"):                                 nm("net/blockwise.BlockWise.", "processReceivedMessage"),
}

func nm(a, b string) string { return a + b }

// pos of an instruction.
func (e *Env) pos(in ssa.Instruction) string { return e.P.InstrPos(in) }

func (e *Env) fpos(f *ssa.Function) string { return e.P.Pos(f.Pos()) }

// trace renders a witness path.
func (e *Env) trace(w []ssa.Instruction) string {
	var s []string
	last := ""
	for _, in := range w {
		p := e.pos(in)
		if p != last {
			s = append(s, p)
		}
		last = p
	}
	if len(s) > 12 {
		s = append(s[:6], append([]string{"…"}, s[len(s)-5:]...)...)
	}
	return strings.Join(s, " → ")
}

// ---------------------------------------------------------------------------
// thorough tier: sensitivity self-test on one-instance-broken copies of the current tree

// Mutant is a source mutation addressed by an exact, unique fragment of the current source
// (a mutant whose fragment no longer occurs exactly once is skipped, never failed).
type Mutant struct {
	Name   string `json:"name"`
	File   string `json:"file"`
	Old    string `json:"old"`
	New    string `json:"new"`
	Expect string `json:"expect"` // substring of the obligation key that must be reported
	Why    string `json:"why"`
	Patch  string `json:"patch,omitempty"` // alternative: a unified diff relative to /verif (e.g. seeded/…/patch.diff)
	// Benign: a behaviour-preserving refactor (benign/…/patch.diff): the rules must stay SILENT on it. A report is a false
	// alarm of the machinery (WARNING), never a verdict about /repo.
	Benign bool `json:"benign,omitempty"`
}

// RunMutants applies each mutant of /verif/mutants/<id>/*.json to a scratch copy of the current /repo (one at a time,
// separate process, removed immediately) and requires the quick rules to report a violation whose key contains Expect.
// Survivors are WARNINGs in the evidence; they never change the verdict about /repo.
func RunMutants(rep *core.Report, pr *Property, repo, verif string) {
	files, _ := filepath.Glob(filepath.Join(verif, "mutants", pr.ID, "*.json"))
	sort.Strings(files)
	self, err := os.Executable()
	if err != nil {
		rep.Warn("mutants: cannot locate own binary: %v", err)
		return
	}
	for _, f := range files {
		b, err := os.ReadFile(f)
		if err != nil {
			continue
		}
		var ms []Mutant
		if err := json.Unmarshal(b, &ms); err != nil {
			var one Mutant
			if err2 := json.Unmarshal(b, &one); err2 != nil {
				rep.Warn("mutants: %s: %v", f, err)
				continue
			}
			ms = []Mutant{one}
		}
		for _, m := range ms {
			rep.Mutants = append(rep.Mutants, runMutant(self, m, pr, repo, verif))
		}
	}
	for _, m := range rep.Mutants {
		if m.Status == "survived" {
			rep.Warn("mutant %s survived (expected a violation with key containing %q; reported %v)", m.Name, m.Expect, m.Reported)
		}
		if m.Status == "false-alarm" {
			rep.Warn("behaviour-preserving refactor %s is reported (false alarm of the machinery): %v", m.Name, m.Reported)
		}
	}
}

func runMutant(self string, m Mutant, pr *Property, repo, verif string) core.MutantResult {
	res := core.MutantResult{Name: m.Name, Expect: m.Expect, Why: m.Why}
	tmp, err := os.MkdirTemp("", "coapcheck-mut-")
	if err != nil {
		res.Status = "skipped"
		res.Why = err.Error()
		return res
	}
	defer os.RemoveAll(tmp)
	dst := filepath.Join(tmp, "repo")
	if err := copyTree(repo, dst); err != nil {
		res.Status = "skipped"
		res.Why = "copy failed: " + err.Error()
		return res
	}
	if m.Patch != "" {
		cmd := exec.Command("patch", "-p1", "-s", "--no-backup-if-mismatch", "-i", filepath.Join(verif, m.Patch))
		cmd.Dir = dst
		if out, err := cmd.CombinedOutput(); err != nil {
			res.Status = "skipped"
			res.Why = "patch does not apply to the current tree: " + strings.TrimSpace(string(out))
			return res
		}
	} else {
		path := filepath.Join(dst, m.File)
		src, err := os.ReadFile(path)
		if err != nil || strings.Count(string(src), m.Old) != 1 {
			res.Status = "skipped"
			res.Why = "fragment not found exactly once in " + m.File
			return res
		}
		if err := os.WriteFile(path, []byte(strings.Replace(string(src), m.Old, m.New, 1)), 0o644); err != nil {
			res.Status = "skipped"
			res.Why = err.Error()
			return res
		}
	}
	outDir := filepath.Join(tmp, "out")
	cmd := exec.Command(self, "-property", pr.ID, "-tier", "quick", "-repo", dst, "-verif", verif, "-out", outDir)
	out, _ := cmd.CombinedOutput()
	ev, err := os.ReadFile(filepath.Join(outDir, "evidence", pr.ID+".json"))
	if err != nil {
		res.Status = "skipped"
		res.Why = "no evidence from mutant run: " + lastLines(string(out), 3)
		return res
	}
	var parsed struct {
		Coverage struct {
			All []core.Obligation `json:"all_obligations"`
		} `json:"coverage"`
	}
	_ = json.Unmarshal(ev, &parsed)
	for _, o := range parsed.Coverage.All {
		if (o.Status == core.Violated || o.Status == core.Undecided) && !o.Known {
			if o.Rule == "framework" {
				res.Status = "skipped"
				res.Why = "mutant does not load/type-check: " + o.Detail
				return res
			}
			res.Reported = append(res.Reported, o.Key)
		}
	}
	if m.Benign {
		res.Status = "silent"
		if len(res.Reported) > 0 {
			res.Status = "false-alarm"
		}
		return res
	}
	res.Status = "survived"
	for _, k := range res.Reported {
		if strings.Contains(k, m.Expect) {
			res.Status = "killed"
		}
	}
	return res
}

func lastLines(s string, n int) string {
	ls := strings.Split(strings.TrimSpace(s), "\n")
	if len(ls) > n {
		ls = ls[len(ls)-n:]
	}
	return strings.Join(ls, " | ")
}

var _ = fmt.Sprintf

// copyTree copies the working tree without its .git directory (which other processes may be updating).
func copyTree(src, dst string) error {
	return filepath.Walk(src, func(path string, info os.FileInfo, err error) error {
		if err != nil {
			if os.IsNotExist(err) {
				return nil
			}
			return err
		}
		rel, _ := filepath.Rel(src, path)
		if rel == ".git" || strings.HasPrefix(rel, ".git"+string(filepath.Separator)) {
			if info.IsDir() {
				return filepath.SkipDir
			}
			return nil
		}
		target := filepath.Join(dst, rel)
		switch {
		case info.IsDir():
			return os.MkdirAll(target, 0o755)
		case info.Mode()&os.ModeSymlink != 0:
			l, err := os.Readlink(path)
			if err != nil {
				return nil
			}
			return os.Symlink(l, target)
		case info.Mode().IsRegular():
			b, err := os.ReadFile(path)
			if err != nil {
				if os.IsNotExist(err) {
					return nil
				}
				return err
			}
			return os.WriteFile(target, b, info.Mode().Perm())
		}
		return nil
	})
}

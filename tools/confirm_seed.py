#!/usr/bin/env python3
"""Confirms a sub-agent's seeded change in a scratch worktree of /repo (never in /repo itself):
  1. demo test passes on the unchanged tree
  2. patch applies, `go build ./...` passes, demo test fails
  3. the existing test suite still passes with the patch (only the two sandbox-environmental failures allowed)
Usage: confirm_seed.py <seed dir> [--full]    result: <seed dir>/confirm.json
"""
import json, os, re, subprocess, sys, shutil, glob, time

ENV = dict(os.environ, GOFLAGS="-mod=mod", GOPROXY="off", GOSUMDB="off", GOTOOLCHAIN="local",
           PATH="/opt/veriftools/go1.26.8/bin:" + os.environ["PATH"])
ALLOWED = {"TestUDPConnWriteToAddr", "TestUDPConnWriteWithContext", "TestUDPConnwriteMulticastWithContext"}

def sh(cmd, cwd, timeout=1800):
    p = subprocess.run(cmd, shell=True, cwd=cwd, env=ENV, capture_output=True, text=True, timeout=timeout)
    return p.returncode, p.stdout + p.stderr

def main():
    d = os.path.abspath(sys.argv[1])
    full = "--full" in sys.argv
    wt = "/tmp/wt/confirm_wt_%d" % os.getpid()
    res = {"seed": d, "ok": False}
    sh("git -C /repo worktree remove --force %s" % wt, "/")
    rc, out = sh("git -C /repo worktree add --detach %s HEAD" % wt, "/")
    try:
        demo = open(os.path.join(d, "DEMO.txt")).read()
        tests = [f for f in glob.glob(os.path.join(d, "**", "*_test.go"), recursive=True)]
        if not tests:
            res["why"] = "no demo test file"; return res
        placed = []
        for t in tests:
            base = os.path.basename(t)
            if os.path.dirname(t) != d:
                rel = os.path.relpath(t, d)
                os.makedirs(os.path.dirname(os.path.join(wt, rel)), exist_ok=True)
                shutil.copy(t, os.path.join(wt, rel)); placed.append(rel)
                continue
            m = re.search(r'([\w./-]*/' + re.escape(base) + r')', demo)
            if not m:
                res["why"] = "cannot find placement of " + base; return res
            rel = m.group(1).lstrip('./')
            rel = re.sub(r'^tmp/wt/C\d\d/', '', rel)
            os.makedirs(os.path.dirname(os.path.join(wt, rel)), exist_ok=True)
            shutil.copy(t, os.path.join(wt, rel))
            placed.append(rel)
        cmds = [l.strip() for l in demo.splitlines() if re.match(r'^\s*(\$ )?go test ', l)]
        cmds = [re.sub(r'^\$ ', '', c) for c in cmds]
        if not cmds:
            m = re.search(r'(go test [^\n`]*)', demo)
            if m: cmds = [m.group(1).strip()]
        if not cmds:
            res["why"] = "no go test command in DEMO.txt"; return res
        cmd = cmds[0].rstrip('`').strip()
        res["demo_cmd"] = cmd; res["placed"] = placed
        rc, out = sh(cmd, wt, 600)
        res["demo_clean_rc"] = rc
        if rc != 0:
            res["why"] = "demo fails on the clean tree: " + out[-800:]; return res
        rc, out = sh("git apply %s" % os.path.join(d, "patch.diff"), wt)
        if rc != 0:
            res["why"] = "patch does not apply: " + out[-400:]; return res
        rc, out = sh("go build ./...", wt)
        if rc != 0:
            res["why"] = "build fails with patch: " + out[-400:]; return res
        rc, out = sh(cmd, wt, 600)
        res["demo_patched_rc"] = rc
        res["demo_patched_tail"] = out[-600:]
        if rc == 0:
            res["why"] = "demo still passes with the patch"; return res
        # existing tests without the demo files
        for rel in placed:
            os.remove(os.path.join(wt, rel))
        touched = subprocess.run("git diff --name-only", shell=True, cwd=wt, capture_output=True, text=True).stdout.split()
        res["touched"] = touched
        pk = "./..." if full else " ".join(sorted({"./" + os.path.dirname(t) + "/..." for t in touched} | {"./udp/...", "./tcp/...", "./dtls/...", "./net/...", "./message/...", "./mux/...", "./pkg/...", "."}))
        t0 = time.time()
        rc, out = sh("go test -vet=off -count=1 -timeout 20m %s" % pk, wt, 2400)
        fails = set(re.findall(r'^--- FAIL: (\w+)', out, re.M))
        res["suite_cmd"] = "go test -vet=off -count=1 " + pk
        res["suite_fail"] = sorted(fails); res["suite_s"] = round(time.time() - t0)
        bad = fails - ALLOWED
        pkgfail = [l for l in out.splitlines() if l.startswith("FAIL") and "\t" in l]
        if bad or (rc != 0 and not fails):
            res["why"] = "existing tests fail with the patch: %s %s" % (sorted(bad), pkgfail[:5]); return res
        res["ok"] = True
        return res
    finally:
        sh("git -C /repo worktree remove --force %s" % wt, "/")
        json.dump(res, open(os.path.join(d, "confirm.json"), "w"), indent=1)
        print(json.dumps({k: res.get(k) for k in ("seed", "ok", "why", "suite_fail")}))

if __name__ == "__main__":
    main()

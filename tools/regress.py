#!/usr/bin/env python3
"""Regression harness for rule changes (development tool): every seeded change must still be reported by its own
property's check, every behaviour-preserving refactor must stay silent.
Usage: regress.py [--bin /verif/bin/coapcheck] [--seeds dir,dir] [--benign dir] [--all-props] [--only Cxx,Cyy] [--props Cxx,Cyy]
  seeds dirs contain <id>/patch.diff (+meta.json with "property") or Cxx/<variant>/patch.diff"""
import json, os, re, shutil, subprocess, sys, glob, tempfile
from concurrent.futures import ThreadPoolExecutor

PROPS = ["C%02d" % i for i in range(1, 21)]

def run(binp, patch, props):
    t = tempfile.mkdtemp(prefix="regress-")
    try:
        subprocess.run(["rsync", "-a", "--exclude", ".git", "/repo/", t + "/repo/"], check=True)
        shutil.rmtree(t + "/repo/.git", ignore_errors=True)
        p = subprocess.run(["patch", "-p1", "-s", "--no-backup-if-mismatch", "-i", patch], cwd=t + "/repo", capture_output=True, text=True)
        if p.returncode != 0:
            return None, "patch does not apply"
        out = {}
        for prop in props:
            r = subprocess.run([binp, "-property", prop, "-tier", "quick", "-repo", t + "/repo", "-out", t + "/out"], capture_output=True, text=True)
            if r.returncode != 0:
                out[prop] = re.findall(r"^\s+((?:violated|undecided) \S+)", r.stdout, re.M)[:6] or [(r.stdout + r.stderr)[-200:]]
        return out, None
    finally:
        shutil.rmtree(t, ignore_errors=True)

def main():
    a = sys.argv[1:]
    binp = a[a.index("--bin") + 1] if "--bin" in a else "/verif/bin/coapcheck"
    seeds = a[a.index("--seeds") + 1].split(",") if "--seeds" in a else ["/verif/seeded", "/tmp/wt/out2"]
    benign = a[a.index("--benign") + 1] if "--benign" in a else "/tmp/wt/out3"
    allp = "--all-props" in a
    jobs = []
    for sd in seeds:
        for pf in sorted(glob.glob(os.path.join(sd, "*", "patch.diff")) + glob.glob(os.path.join(sd, "C*", "[A-Z]", "patch.diff"))):
            d = os.path.dirname(pf)
            m = re.search(r"(C\d\d)", d[len(sd):])
            if not m: continue
            jobs.append(("seed", d[len(sd) + 1:], pf, m.group(1)))
    if benign and benign != "none":
        for pf in sorted(glob.glob(os.path.join(benign, "C*", "[R-Z]*", "patch.diff"))):
            d = os.path.dirname(pf)
            jobs.append(("benign", d[len(benign) + 1:], pf, d.split("/")[-2]))
        # the committed corpus layout: benign/Cxx-Rn/patch.diff
        for pf in sorted(glob.glob(os.path.join(benign, "C[0-9][0-9]-[R-Z]*", "patch.diff"))):
            d = os.path.dirname(pf)
            jobs.append(("benign", d[len(benign) + 1:], pf, os.path.basename(d)[:3]))
    if "--only" in a:  # --only C04,C07: restrict to the corpora of these properties
        keep = set(a[a.index("--only") + 1].split(","))
        jobs = [j for j in jobs if j[3] in keep]
    missed, alarms, nb, ns = [], [], 0, 0
    def work(j):
        kind, name, pf, prop = j
        props = PROPS if (allp and kind == "benign") else [prop]
        if "--props" in a and kind == "benign":  # --props C06,C11: run only these checks on the edits
            props = a[a.index("--props") + 1].split(",")
        return j, run(binp, pf, props)
    with ThreadPoolExecutor(max_workers=12) as ex:
        for j, (res, err) in ex.map(work, jobs):
            kind, name, pf, prop = j
            if err:
                print("ERROR", name, err); continue
            if kind == "seed":
                ns += 1
                if prop not in res:
                    missed.append(name); print("MISSED", name)
            else:
                nb += 1
                if res:
                    alarms.append(name)
                    for p, ks in res.items():
                        print("ALARM ", name, p, " | ".join(ks)[:300])
    print("seeds: %d, missed %d %s" % (ns, len(missed), missed))
    print("benign: %d, with alarms %d" % (nb, len(alarms)))

if __name__ == "__main__":
    main()

#!/bin/sh
# usage: try_seed.sh <patch.diff> <property>...   – applies the patch to a scratch copy of /repo (never /repo itself) and runs the quick checks on it
patch="$1"; shift
t=$(mktemp -d /tmp/tryseed.XXXXXX)
rsync -a --exclude .git /repo/ "$t/repo/"
( cd "$t/repo" && patch -p1 -s --no-backup-if-mismatch < "$patch" ) || { echo "PATCH FAILED"; rm -rf "$t"; exit 2; }
for p in "$@"; do
  /verif/bin/coapcheck -property "$p" -tier quick -repo "$t/repo" -out "$t/out" 2>&1 | grep -v '^VIOLATION' | tail -${TAIL:-6}
done
rm -rf "$t"

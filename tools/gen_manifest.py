#!/usr/bin/env python3
"""Regenerates /verif/MANIFEST.json from the table below (kept valid against /root/.vp/MANIFEST.schema.json).
A property is listed under `checks` only when its rules exist in the checker; everything else is under not_applicable."""
import json, subprocess, sys, os

ENV = "env GOFLAGS=-mod=vendor GOPROXY=off GOSUMDB=off GOTOOLCHAIN=local PATH=/opt/veriftools/go1.26.8/bin:$PATH"
SETUP = f"cd /verif/checker && {ENV} go build -o /verif/bin/coapcheck . "

TRUST = ("Trusted: go/types + go/ssa (x/tools v0.50.0) as a faithful representation of /repo's current source; the rule tables in "
         "checker/rules (instances discovered by role on every run, floors asserted); stdlib/pion code is opaque. Nothing of go-coap is executed. ")

# id -> (level, technique, text, note, design_ref)
CLAIMS = {
 "C14": ("proof", "must-hold lockset dataflow on go/ssa + single-critical-section rule + CFG guard dominance",
         "Per-operation atomicity of every non-iterating operation of pkg/sync.Map and pkg/cache.Cache is proved structurally: each operation's accesses to the guarded map lie in one critical section of the one RWMutex (or it delegates to exactly one such operation), callbacks run in the documented lock context, Range callbacks only compare-and-act, and the expiry predicate/uses are the identity on live entries. With the meta-theorem 'single-critical-section operations on one lock linearize in acquisition order' this is the linearizability claim for those operations on every interleaving, which no finite set of schedules can show. A callback forwarded to another operation is checked against that operation's lock context. The expiry decision uses one atomic snapshot; a delegating operation's callback is never called outside the write lock.",
         TRUST + "Meta-theorem and sync.RWMutex semantics are assumed, not checked. Range's whole-iteration atomicity is excluded by design (documented weakly consistent).",
         "DESIGN.md §4 C14"),
 "C01": ("other", "abstract interpretation of encoder→decoder composition per extension class (linear forms through abstract byte buffers, bit provenance for header layouts) + CFG dominance / sibling-arm agreement / value-flow rules",
         "Structural necessary conditions of the round trip are decided for every value of each class rather than for sampled messages: the option delta/length extension classes and the stream length classes are shown to compose to the identity through the bytes actually written (extendOpt→marshalOptionHeaderExt→parseExtOpt, getHeader→DecodeHeader), header byte layouts are shown by bit provenance, size computation and writing are shown to share one code path, destination slices are never extended, and validation dominates the first write. Full message equality after a round trip needs execution and is explicitly not claimed. Also decided: the per-code signal option registries are selected by the frame's own code, and the room test before each extension write equals the number of bytes written. Decoders store every header field on every successful return and consecutive sub-parsers never share a cursor value.",
         TRUST + "Abstract transfer functions trusted. Known finding D18 (types 4..255 accepted) is listed in known_findings.json.",
         "DESIGN.md §4 C01"),
 "C02": ("other", "in-range obligations for every index/slice on wire bytes discharged from dominating guards + slice arithmetic + verified callee summaries (cursor/counter lock-step analysis), abstract interpretation of the stream header parser on symbolic buffers, literal-table evaluation",
         "Panic-freedom and progress of the decoders are decided on every path: each index, slice and fixed-width read on attacker-controlled bytes is shown in range (one obligation each), consumed-byte counters are shown to stay in lock-step with the cursor (so callers can slice by them), loops are shown to progress, the stream header parser is abstractly interpreted for every buffer length 0..16 with fully symbolic content (no wrap, no lossy cast, only documented outcomes), accepted tokens are at most 8 bytes, option numbers accumulate over dropped options, the pooled entry point copies its input, and the option registries equal the RFC tables. Agreement with a reference parser on every string and canonicalisation need execution and are not claimed. The decoders accept exactly what the encoders' classes produce (nibble 15 refused); helpers extracted from a decoder are analysed as part of it. A skipped option keeps ID 0; sub-parsers never share a cursor value; decoders assign every header field.",
         TRUST + "bytes.Buffer.Len()==len(Bytes()) between two calls without intervening buffer mutation is assumed in the stream re-framing loop.",
         "DESIGN.md §4 C02"),
 "C03": ("other", "CFG path queries with defer modelling (registered ⇒ checked ⇒ removed on all exits), structural key-agreement and hand-over rules, lockset rule for the registration primitive",
         "Structural necessary conditions of token matching are decided on every path of every registration site: store-if-absent is one critical section, the duplicate edge returns an error without overwriting and without removing the owner's entry, the stored edge removes the same key on all exits (or hands a cleanup to callers that all run it), every table access is keyed by Token().Hash() which checksums the whole token, dispatch is one-shot and the hand-over is a non-blocking send of a hijacked message on the request's own buffered channel. Matching under adversarial response orders is not executed and not claimed. The reply-cache arms of processResponse are decided as well (a cached bare ACK carries no token). The hijack flag is monotone and the stream framing loop consumes every decoded frame exactly once.",
         TRUST + "CRC-64 collisions between different tokens are outside the claim.",
         "DESIGN.md §4 C03"),
 "C04": ("other", "control-dependence / dominance rules on the reassembly and sending code, forced-edge path queries, value-flow of the M flag and block numbers, abstract interpretation of the size clamp on ordering cells",
         "Structural necessary conditions of exact-once block-wise delivery are decided on every path: a block is copied only at the end of the bytes already held (NUM·size, size read after any truncation), the reassembled message is handed on at exactly one site after a successful last copy and after its entry was deleted, errors delete the entry and are answered with 4.08, the per-token guard is always released, negotiation returns the smaller size, the M flag and the next block number are computed from the real body size / bytes held, a transfer start never skips a buffer, and both caches are keyed by token hashes. Byte-exact delivery over sizes, SZX pairs and fault sequences needs execution and is not claimed. Also decided: every function that builds a message continuing a transfer copies the complete option list of its template, the block-size setting reaches all per-connection configs, and an expired transfer's entry is never matched by a new exchange. A block's bytes are owned by its message (no pooled buffer) and the reassembly message's options are set once.",
         TRUST, "DESIGN.md §4 C04"),
 "C05": ("other", "dominance / control-dependence and forced-edge path queries on handleReq and processResponse, value-flow of cache keys, constant evaluation",
         "Structural necessary conditions of MID de-duplication are decided on every path: the per-ID lock is keyed by the request's MID, taken before the cache lookup that guards dispatch and released on every exit; a hit cannot reach dispatch and is answered with the duplicate's MID; every reply-producing arm stores the reply, for CON and NON, under the request's MID (both key functions derive from the MID parameter only); lifetime is 247 s from now; the cached bytes are a private copy. Concurrent duplicate schedules are not executed. An expired cache entry is replaced by LoadOrStore (expiry asked of the stored element) and nothing edits the reply between caching and sending. The replay decodes into the response completely (every header field overwritten).",
         TRUST, "DESIGN.md §4 C05"),
 "C06": ("other", "control-dependence of the retransmitting write, structural predicate rules, value-flow of the retransmitted message, sibling rule over all removals from the pending table",
         "Structural necessary conditions of bounded retransmission are decided: a copy is sent only while not expired and due; expiry is count ≥ MAX_RETRANSMIT or deadline, due time is start + ACK_TIMEOUT·(count+1) with the counter incremented exactly then; the timer origin is taken after the NSTART wait; copies come from a clone of the private clone and Clone rewinds the body; every one of the 5 removals from the pending table releases the copy, the ACK arm before waking the writer; NSTART weights balance; the wait has all three exits. Timing and bytes on the wire need a clock and a network and are not claimed. The three transmission parameters are followed from the server/client configuration through every copy to the comparison that uses them, and the writer runs the pending-entry cleanup on every exit. A failed copy does not remove the pending entry.",
         TRUST, "DESIGN.md §4 C06"),
 "C07": ("other", "dominance/control-dependence rules on the re-framing loop + abstract interpretation of the header parser on every proper prefix of every header shape",
         "The structural reasons framing depends only on the concatenated bytes are decided: size limit before waiting and before decoding, no consumption before the frame is complete, decoder gets exactly the announced frame and the buffer advances by the decoder's count, every proper header prefix yields ErrShortRead (abstractly interpreted with symbolic content, 8 header shapes × all prefix lengths) which the loop maps to 'wait', the announced length cannot wrap, reads append exactly what was read, hand-over is synchronous and in order. The quantification over all segmentations is argued from these, not executed. The sender's length header is shown to be what the receiver's framing reads back for every length class, and the configured size limit is followed by name from the server configuration to the framing loop. A frame is written under one critical section (the writers' lock is taken outside the partial-write loop).",
         TRUST,
         "DESIGN.md §4 C07"),
 "C08": ("other", "abstract interpretation of the freshness predicate on relational cells (linear forms s, s±d; interval classes) + lockset / control-dependence rules on the observation state",
         "The freshness predicate is shown equal to RFC 7641 §3.4 for every old value at and around every boundary distance and for every distance class from old value 0, crossed with the elapsed-time classes (30 cells, all paths); observation state is shown to be touched only under its mutex and written only for accepted notifications; the application callback is shown to be gated by the acceptance test for every message including the first; registration cleanup (error-cell discipline, duplicate keeps the owner) and the 2.05/2.03 success rule, and Cancel's remove-before-deregister order are decided on every path. Arrival histories are not executed. Cancel never re-registers on a failed deregistration; routing uses Token.Hash, which checksums the whole token. A notification keeps its Observe option up to the freshness check (reassembly options set once; registry admits 0-3 bytes).",
         TRUST, "DESIGN.md §4 C08"),
 "C09": ("other", "inventory of every blocking operation (select / channel op / semaphore / WaitGroup / sleep) classified by the origin of each case's channel, close-once and defer-first path rules, lockset-at-call rule",
         "Liveness on cancel/close is decided as an exhaustive inventory: every select, semaphore wait, WaitGroup wait and sleep of the module is classified (the counts are in the evidence); every client-operation wait is shown to have a case on the request context and on the connection/server context (or is listed with the holder that bounds it), an unlisted blocking operation fails. Close is decided structurally: compare-and-swap guards, on-close list popped in one critical section, Run arms Close+shutdown before any return, done completed only by shutdown (called only from Run), Close cancels unconditionally, no Close/callback under a server mutex, requests built on the caller's context. Delay bounds in time are not claimed. Close of the stream wrapper takes no I/O lock. An NSTART slot is never kept by a failed request.",
         TRUST, "DESIGN.md §4 C09"),
 "C10": ("other", "loop-exit cause analysis of the serve loops, accept-loop purity rule, value-flow of the handshake context and peer key, lockset rule, inventory of explicit panic sites with call-graph reachability, in-range obligations on the decoders",
         "Decided on every path: the datagram serve loop returns only for listener errors and per-peer errors only close that peer; the stream/DTLS accept loops return only on checkAcceptError and do nothing with an accepted connection except start its goroutine; the DTLS handshake is bounded by the configured timeout; the peer key uses both addresses and get-or-create is one critical section; a rejected duplicate discovery touches nothing of the running one; every explicit panic site is in a triaged table (new ones fail) with CHA/VTA reachability from the receive entry points in the evidence; every index/slice on wire bytes in the decoders is in range. Behavioural isolation between peers and pion/dtls internals are not claimed. Every store into the connection table uses the key computed for that connection; keep-alive state is per connection. A listener reports 'closed' only on its closed flag; a rejected duplicate discovery arms no removal by defer.",
         TRUST, "DESIGN.md §4 C10"),
 "C11": ("other", "dominance of the loop-replacement call over each reader-fed wait, who-may-call sets over the type-resolved program, lockset and flag-discipline rules, one-fate path queries",
         "Decided structurally: every wait that only the reader loop can satisfy is dominated by TryToReplaceLoop (also on the Observe path), the per-message dispatch has a single caller and the queue a single consumer, reader state is touched only under its mutex, the loop's flag discipline and the freshness of a replacement loop's channel and flag hold, and each decoded message meets exactly one of release / inline handling / enqueue on every path. Arrival order under nested blocking handlers depends on Go's unprioritised select and is stated as out of reach, not as holding. Application callbacks are invoked with no library mutex held on any path (may-hold lock sets), and the own message-ID counter is kept away from the ID of a confirmable request in progress (operand order and step of checkMyMessageID). Dispatch is one-shot and the stream buffer is consumed exactly (no message handled twice).",
         TRUST, "DESIGN.md §4 C11"),
 "C12": ("other", "ownership typestate of *pool.Message per function over go/ssa with defer modelling and fixpoint-discovered releasers; guard-dominance rules for the hijack protocol",
         "For every release site of the module: after a release no path uses, sends, stores or releases the same message again and no deferred release of it is pending; received messages are released only on the not-hijacked edge after the handler returned and the hijack flag is monotone; continuations hijack before handing a message to another goroutine; SetMessage/Swap and all Swap callers account for every message; the pending copy is accessed under its lock and forgotten on release; Pool.ReleaseMessage resets before Put and touches nothing after. Cross-goroutine aliasing through application code is not decided (no pointer analysis available). Across containers: a message handed to a pending entry is released only through it, cache-element data is borrowed, and no closure that outlives a function captures a message that function releases.",
         TRUST, "DESIGN.md §4 C12"),
 "C13": ("other", "registration-pairing path queries over an inventory of every storing call into Map/Cache-typed fields, deadline non-zero value-flow, error-cell cleanup discipline, acquire/release pairing",
         "Leak-freedom is decided as a pairing discipline on every path: each of the registration sites (all that exist – an unclassified new site fails) is removed on every exit, or its cleanup is handed to callers that all run it, or it is stored with a provably set deadline that the sweep (shown to reach every cache and the pending table) removes; deferred error-cell cleanups see the error actually returned; semaphores, endpoint slots and per-ID locks are released on every exit; the per-ID lock map and endpoint queue delete their entries at zero. Table sizes after histories are not measured. The endpoint queue entry is deleted on every path from counter == 0; removal closures handed to callers are not keyed by recycled messages. The NSTART slot is released on every error return; the helper GET's sending entry is dropped on the tokens-differ edge.",
         TRUST,
         "DESIGN.md §4 C13"),
 "C15": ("other", "sibling-agreement rules (all consumers of Find, both attempts of every grow-and-retry idiom), failure-atomicity path queries, value-flow rules on the pooled builder's value buffer",
         "Decided structurally: the upper bound returned by Find is exclusive in all consumers, the retry of every grow-and-retry site repeats the first call with the same non-buffer arguments, no editor mutates the list before reporting ErrTooSmall (one listed exception), option values are slices of the message's own only-advancing value buffer and nothing appends to an existing value, the 255-byte limit and empty-segment handling agree between siblings. Equality with a reference multiset model over operation sequences needs relational loop invariants / execution and is not claimed. Unsigned option values: EncodeUint32/DecodeUint32 are abstractly interpreted per length class (minimal-length big-endian, mutually inverse, every write in range with a destination of exactly the guarded length); the option list grows only through the Find-positioned insertions and the ascending parser. A successful setPath replaces the old path; value copies are complete (length, not capacity).",
         TRUST, "DESIGN.md §4 C15"),
 "C16": ("other", "lock-context rule for queue state, forced-edge pairing queries (release only after success), guard-dominance of counter updates, structural FIFO / order-preserving-removal / cancel-identity rules",
         "Decided on every path: queue state is touched only inside map-locked callbacks; endpoint slots and the total-limit semaphore are released by defer exactly on the successful-acquisition edge and never on the failed one; the counter grows only under counter < limit and shrinks only when no waiter takes over; waiters are appended, admitted from the front and removed order-preservingly; the cancel path identifies the waiter by its own channel and gives a slot back only if it had been admitted; a waiter channel is closed exactly where a slot is granted. Event orders are not explored. The two configured limits reach the limiter uncrossed (field to parameter to field, by name) and the endpoint key covers exactly the Uri-Path options. The observation handler's requests pass the limiter too.",
         TRUST, "DESIGN.md §4 C16"),
 "C17": ("other", "must-hold lockset rule over all Router methods, value-flow of literal path pieces through QuoteMeta into the anchored buffer, forced-edge path queries on the selection, loop-exit analysis",
         "Decided: the route table and default handler are accessed only under the router lock (data-race freedom on every path), the compiled pattern is ^…$ with every literal piece quoted, a route becomes the candidate only after matching and only if strictly longer, the scan has no early exit, no match selects the default handler, one handler invocation per path, middlewares wrap in reverse order. Regexp semantics and variable extraction need execution. Every request gets freshly allocated route parameters. pathMatch rejects only by the route's regexp.",
         TRUST, "DESIGN.md §4 C17"),
 "C18": ("other", "dominance of Notify over all handling on both receive paths, structural predicate rules, value-flow of the housekeeping time, guard-dominance rules of the keep-alive protocol, who-may-call sets",
         "Decided: every non-dropped received message refreshes the activity timestamp before it is handled; the monitor fires exactly on now.After(last+period); housekeeping uses the tick's own time (one open finding: +10 ms in the datagram server); keep-alive closes only on incremented fails > maxRetries, cancels the superseded ping, numbers every ping and credits a pong only to the current generation, with per-connection state; who may reset the failure count (open finding: only the pong). Histories against a virtual clock are not executed. The housekeeping tick reaches every registered connection (no early exit from the fan-out). Every path of a connection's housekeeping reaches the inactivity check.",
         TRUST + "Known findings D13, D19 are listed in known_findings.json.", "DESIGN.md §4 C18"),
 "C19": ("proof", "abstract interpretation of the codec on go/ssa (intervals × per-bit provenance × linear forms) over symbolic inputs + constant-table evaluation",
         "The whole statement is decided for the whole domain without enumerating it: DecodeBlockOption/EncodeBlockOption are abstractly interpreted on symbolic 24-/32-bit inputs; acceptance/refusal is shown per input cell on every abstract path and the results' bits are shown to be exactly the RFC 7959 fields (so the two functions are mutual inverses), with no wrap or lossy conversion on the legal domain; the SZX size table is evaluated from the literal, shown single-writer, and BERT sizing is shown to be floor(max/1024)*1024. The 24-bit value's 0-3 byte minimal big-endian wire form (message.EncodeUint32/DecodeUint32) is decided per length class as well.",
         TRUST + "The abstract transfer functions (sound for Go fixed-width integers) are trusted. BERT sizing for max < 1024 is outside the claim.",
         "DESIGN.md §4 C19"),
 "C20": ("proof", "abstract interpretation of IsNoResponseCode over code-class × option-bit cells + dominance/value-flow rules for the wiring",
         "The predicate is decided for every (code, option value) pair: 72 abstract cells (9 code ranges × 8 settings of bits 2/8/16, the other 29 bits unknown) are each shown to return non-nil exactly when RFC 7967 suppresses the class. The wiring that makes the predicate govern SetResponse (check before mutation, refusal returned, option 258 read from the whole request option list at every construction site, unmodified response = bare ACK or nothing) is decided by dominance and value-flow rules on every path. Who may set a response code on a response writer's message is decided module-wide (SetResponse and the bare-ACK arm only). Option numbers accumulate over skipped options, so option 258 is recognised behind an illegal-length option.",
         TRUST + "What is put on the wire by the transports after SetResponse refused is decided only structurally (unmodified-response arms), not by observing frames.",
         "DESIGN.md §4 C20"),
}

REASON_NOT_BUILT = "static rules for this property are not built yet (see DESIGN.md Appendix B); not claimed rather than claimed thinly"

def main():
    props = [json.loads(l) for l in open('/verif/properties.jsonl')]
    checks, na = [], []
    have = set()
    try:
        out = subprocess.run(['/verif/bin/coapcheck', '-list'], capture_output=True, text=True).stdout
        have = {l.split()[0] for l in out.splitlines() if l.strip()}
    except Exception:
        pass
    for p in props:
        pid = p['id']
        if pid in CLAIMS and (not have or pid in have):
            lvl, tech, text, note, ref = CLAIMS[pid]
            checks.append({
                "property_id": pid,
                "quick_cmd": f"/verif/bin/coapcheck -property {pid} -tier quick",
                "thorough_cmd": f"/verif/bin/coapcheck -property {pid} -tier thorough",
                "evidence_file": f"/verif/evidence/{pid}.json",
                "replay_cmd_template": f"sh -c 'cat {{path}}; /verif/bin/coapcheck -property {pid} -tier quick -v'",
                "engine": "coapcheck",
                "level_claimed": {"category": lvl, "text": text, "design_ref": ref},
                "level_note": note,
                "technique": "static analysis: " + tech,
            })
        else:
            na.append({"property_id": pid, "reason": NA.get(pid, REASON_NOT_BUILT)})
    m = {
        "version": 1,
        "setup_cmd": SETUP,
        "hooks": {
            "guard": "verif",
            "enable": "none needed: static analysis instruments nothing; checks read /repo's working tree as it is (no build tag)",
            "baseline_off_cmd": "cd /repo && env GOFLAGS=-mod=mod GOPROXY=off GOSUMDB=off GOTOOLCHAIN=local PATH=/opt/veriftools/go1.26.8/bin:$PATH go test -json -vet=off -count=1 -timeout 25m ./...",
            "source_commits": [],
            "add_only": True,
        },
        "engines": [{
            "name": "coapcheck", "path": "/verif/checker",
            "serves_properties": [c["property_id"] for c in checks],
            "kind_free_text": "repository-specific static analyser (go/packages + go/types + go/ssa, x/tools v0.50.0 vendored): CFG path queries with defer modelling, must-hold locksets, value-flow slices, abstract interpretation of integer code (intervals × known bits × bit provenance), blocking-wait inventory, pool.Message ownership typestate; per-property rule tables keyed by role",
        }],
        "checks": checks,
        "not_applicable": na,
        "notes": "Unexported helpers that are not anchors of a rule are analysed as part of their callers (DESIGN.md §3 absorption), so extracting or inlining helpers does not change a verdict. Every check re-loads and re-type-checks /repo's current working tree on each run (about 2-4 s). Thorough tier adds GOARCH=386, GOOS=windows and a tests-included configuration plus a two-sided self-test on scratch copies of the current tree: one-instance-broken mutants (incl. the independently seeded breaking changes of three rounds) must be reported, the independently produced behaviour-preserving refactors listed in mutants/*/benign.json must stay silent (under $TMPDIR, removed immediately). known_findings.json lists findings (open) and repaired defects (fixed); it is never written at run time.",
    }
    json.dump(m, open('/verif/MANIFEST.json', 'w'), indent=1)
    print("checks:", [c["property_id"] for c in checks], "n/a:", len(na))

NA = {}

if __name__ == '__main__':
    main()

#!/usr/bin/env python3
"""Imports confirmed sub-agent changes into /verif/seeded/<id>/ and records which checks report each one.
For every seed: scratch copy of /repo (never /repo itself) + patch → every property's quick check with -repo <copy>.
Usage: seed_matrix.py [--import /tmp/wt/out] [--only-new]   (without --import only the matrix is recomputed from /verif/seeded)"""
import json, os, re, shutil, subprocess, sys, glob, tempfile
from concurrent.futures import ThreadPoolExecutor

SEEDED = "/verif/seeded"
PROPS = ["C%02d" % i for i in range(1, 21)]

def import_from(src):
    for d in sorted(glob.glob(os.path.join(src, "C*", "*"))):
        if not os.path.isdir(d): continue
        cj = os.path.join(d, "confirm.json")
        if not os.path.exists(cj): continue
        conf = json.load(open(cj))
        if not conf.get("ok"): continue
        prop, var = d.split("/")[-2], d.split("/")[-1]
        sid = "%s-%s" % (prop, var)
        out = os.path.join(SEEDED, sid)
        os.makedirs(out, exist_ok=True)
        shutil.copy(os.path.join(d, "patch.diff"), os.path.join(out, "patch.diff"))
        for t in glob.glob(os.path.join(d, "**", "*_test.go"), recursive=True):
            shutil.copy(t, os.path.join(out, os.path.relpath(t, d).replace("/", "__") + ".txt"))  # .txt: not compiled as part of anything under /verif
        if os.path.exists(os.path.join(d, "DEMO.txt")):
            shutil.copy(os.path.join(d, "DEMO.txt"), os.path.join(out, "DEMO.txt"))
        meta = {}
        try: meta = json.load(open(os.path.join(d, "meta.json")))
        except Exception: pass
        m = {
            "id": sid, "property": prop,
            "summary": meta.get("summary"), "breaks": meta.get("breaks"), "needs": meta.get("needs"),
            "touched_files": conf.get("touched"),
            "origin": "independent sub-agent given only the property text and a scratch worktree of /repo",
            "confirmed_by_me": {
                "how": "tools/confirm_seed.py in a scratch worktree: demo passes on the clean tree, patch applies, go build ./... passes, demo fails with the patch, existing suite re-run",
                "demo_cmd": conf.get("demo_cmd"), "demo_placed_at": conf.get("placed"),
                "demo_clean_rc": conf.get("demo_clean_rc"), "demo_patched_rc": conf.get("demo_patched_rc"),
                "demo_patched_tail": conf.get("demo_patched_tail"),
                "suite_cmd": conf.get("suite_cmd"), "suite_failures": conf.get("suite_fail"),
                "note": "the two listed suite failures (TestUDPConnWriteToAddr, TestUDPConnWriteWithContext) fail on the unchanged tree in this sandbox too (no suitable IP address)",
            },
        }
        json.dump(m, open(os.path.join(out, "meta.json"), "w"), indent=1, ensure_ascii=False)

def run_seed(sd):
    sid = os.path.basename(sd)
    t = tempfile.mkdtemp(prefix="seedmx-")
    try:
        subprocess.run(["rsync", "-a", "--exclude", ".git", "/repo/", t + "/repo/"], check=True)
        shutil.rmtree(t + "/repo/.git", ignore_errors=True)
        p = subprocess.run(["patch", "-p1", "-s", "--no-backup-if-mismatch", "-i", os.path.join(sd, "patch.diff")], cwd=t + "/repo", capture_output=True, text=True)
        if p.returncode != 0:
            return sid, None, "patch does not apply: " + p.stdout[-200:]
        caught = {}
        for prop in PROPS:
            r = subprocess.run(["/verif/bin/coapcheck", "-property", prop, "-tier", "quick", "-repo", t + "/repo", "-out", t + "/out"], capture_output=True, text=True)
            if r.returncode != 0:
                keys = re.findall(r"^\s+(?:violated|undecided) (\S+)", r.stdout, re.M)
                caught[prop] = keys[:6]
        return sid, caught, None
    finally:
        shutil.rmtree(t, ignore_errors=True)

def main():
    if "--import" in sys.argv:
        import_from(sys.argv[sys.argv.index("--import") + 1])
    seeds = sorted(d for d in glob.glob(os.path.join(SEEDED, "C*")) if os.path.isdir(d))
    rows = []
    only_new = "--only-new" in sys.argv  # keep the recorded matrix rows of seeds that already have one
    def job(sd):
        if only_new:
            try:
                m = json.load(open(os.path.join(sd, "meta.json")))
                if "detected_by" in m:
                    return os.path.basename(sd), m["detected_by"], m.get("detection_error")
            except Exception:
                pass
        return run_seed(sd)
    with ThreadPoolExecutor(max_workers=8) as ex:
        for sid, caught, err in ex.map(job, seeds):
            mp = os.path.join(SEEDED, sid, "meta.json")
            m = json.load(open(mp))
            m["detected_by"] = caught if caught is not None else {}
            m["detection_error"] = err
            m["detected_by_own_property_check"] = bool(caught and m["property"] in caught)
            json.dump(m, open(mp, "w"), indent=1, ensure_ascii=False)
            rows.append((sid, m["property"], caught, err, m.get("summary") or ""))
    with open(os.path.join(SEEDED, "README.md"), "w") as f:
        f.write("# Seeded changes (never committed to /repo)\n\nEach directory: `patch.diff` (apply with `git -C /repo apply`, undo with `git -C /repo checkout -- .`), the demonstration test (`*_test.go.txt`, placement and command in `DEMO.txt`), `meta.json`.\n\n")
        f.write("| seed | own check | rules reporting it | other checks reporting it | what was changed |\n|---|---|---|---|---|\n")
        for sid, prop, caught, err, summ in rows:
            own = "**caught**" if caught and prop in caught else ("n/a: " + err if err else "MISSED")
            rules = ", ".join(sorted({k.split(":")[0] for k in (caught or {}).get(prop, [])}))
            others = ", ".join(p for p in sorted(caught or {}) if p != prop)
            f.write("| %s | %s | %s | %s | %s |\n" % (sid, own, rules, others, summ.replace("|", "/").replace("\n", " ")[:160]))
    n = sum(1 for r in rows if r[2] and r[1] in r[2])
    print("seeds:", len(rows), "caught by own property check:", n)
    for r in rows:
        if not (r[2] and r[1] in r[2]):
            print("  not caught by own check:", r[0], r[3] or "", "others:", sorted(r[2] or {}))

if __name__ == "__main__":
    main()

#!/usr/bin/env python3
"""False-alarm test: behaviour-preserving refactors (from independent sub-agents, <src>/Cxx/Rn/patch.diff) are applied to
scratch copies of /repo (never /repo itself) and every property's quick check is run on each. Any report is a false alarm
to be triaged (rule too syntactic) – unless reading shows the "refactor" is not behaviour-preserving after all.
Usage: benign_matrix.py <src dir> [--props own|all] [--only C01/R1,...] [--out file]"""
import json, os, re, shutil, subprocess, sys, glob, tempfile
from concurrent.futures import ThreadPoolExecutor

PROPS = ["C%02d" % i for i in range(1, 21)]

def run(d, props):
    t = tempfile.mkdtemp(prefix="benign-")
    try:
        subprocess.run(["rsync", "-a", "--exclude", ".git", "/repo/", t + "/repo/"], check=True)
        shutil.rmtree(t + "/repo/.git", ignore_errors=True)
        p = subprocess.run(["patch", "-p1", "-s", "--no-backup-if-mismatch", "-i", os.path.join(d, "patch.diff")], cwd=t + "/repo", capture_output=True, text=True)
        if p.returncode != 0:
            return d, None, "patch does not apply: " + p.stdout[-300:]
        alarms = {}
        for prop in props:
            r = subprocess.run(["/verif/bin/coapcheck", "-property", prop, "-tier", "quick", "-repo", t + "/repo", "-out", t + "/out"], capture_output=True, text=True)
            if r.returncode != 0:
                alarms[prop] = re.findall(r"^\s+((?:violated|undecided) \S+.*)$", r.stdout, re.M)[:8] or [r.stdout[-300:] + r.stderr[-300:]]
        return d, alarms, None
    finally:
        shutil.rmtree(t, ignore_errors=True)

def main():
    src = sys.argv[1]
    mode = "all"
    only = None
    out = None
    a = sys.argv[2:]
    if "--props" in a: mode = a[a.index("--props") + 1]
    if "--only" in a: only = set(a[a.index("--only") + 1].split(","))
    if "--out" in a: out = a[a.index("--out") + 1]
    dirs = [d for d in sorted(glob.glob(os.path.join(src, "C*", "R*"))) if os.path.exists(os.path.join(d, "patch.diff"))]
    if only: dirs = [d for d in dirs if "/".join(d.split("/")[-2:]) in only]
    res = {}
    with ThreadPoolExecutor(max_workers=6) as ex:
        futs = []
        for d in dirs:
            own = d.split("/")[-2]
            futs.append(ex.submit(run, d, PROPS if mode == "all" else [own]))
        for f in futs:
            d, alarms, err = f.result()
            k = "/".join(d.split("/")[-2:])
            res[k] = {"alarms": alarms, "error": err}
            if err: print(k, "ERROR", err)
            elif alarms:
                for p, ks in alarms.items():
                    for x in ks: print(k, p, x[:260])
            else: print(k, "silent")
    if out: json.dump(res, open(out, "w"), indent=1)

if __name__ == "__main__":
    main()

import json,os,re,glob,sys
log=open(sys.argv[1]).read()
alarm=set(re.findall(r'^ALARM\s+(C\d\d-[R-Z]\d)\s', log, re.M))
extra=set(sys.argv[2:])  # ids to force silent (re-tested with a newer binary)
alarm-=extra
print('alarming edits:',len(alarm),sorted(alarm))
B='/verif/benign'
rows=[]
for d in sorted(glob.glob(B+'/C??-[R-Z]?')):
    i=os.path.basename(d)
    mp=d+'/meta.json'
    m=json.load(open(mp))
    if i in alarm: m['known_false_alarm']=True
    else: m.pop('known_false_alarm',None)
    json.dump(m,open(mp,'w'),indent=1,ensure_ascii=False)
    kind=(m.get('kind') or m.get('summary') or '').replace('|','/').replace('\n',' ')[:160]
    rows.append((i,'**known false alarm**' if i in alarm else 'silent',kind))
# README
rd=open(B+'/README.md').read()
head=rd[:rd.index('| edit | status | kind |')]
head=re.sub(r'Five batches of 80 from independent sub-agents: R \(small refactors\), S \(second batch\),\nT \(predicate rewrites\), U \(large restructurings\), V \(hardening / tidying\)\.','Five batches of 80 and a sixth of 60 from independent sub-agents: R (small refactors), S (second batch),\nT (predicate rewrites), U (large restructurings), V (hardening / tidying), W (near-synonyms, lifecycle, arithmetic, sibling unification, error plumbing).',head)
tab='| edit | status | kind |\n|---|---|---|\n'+''.join(f'| {a} | {b} | {c} |\n' for a,b,c in rows)
open(B+'/README.md','w').write(head+tab)
# mutants/Cxx/benign.json : silent ones
for pid in ['C%02d'%k for k in range(1,21)]:
    lst=[]
    for d in sorted(glob.glob(f'{B}/{pid}-[R-Z]?')):
        i=os.path.basename(d)
        if i in alarm: continue
        m=json.load(open(d+'/meta.json'))
        why=((m.get('kind') or '')+': '+(m.get('summary') or ''))[:200]
        lst.append({'name':'refactor-'+i,'patch':f'benign/{i}/patch.diff','benign':True,'expect':'','why':why})
    json.dump(lst,open(f'/verif/mutants/{pid}/benign.json','w'),indent=1,ensure_ascii=False)
print('silent:',len(rows)-len(alarm),'of',len(rows))

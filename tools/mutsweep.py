#!/usr/bin/env python3
"""Mutation sweep (development tool, not a registered check): first-order mutants of the anchored files are applied to
scratch copies of /repo; for each mutant that still type-checks, the quick checks of the properties anchored in that file
are run on the copy. Mutants no check reports are then run against the touched package's own tests: a mutant that passes
the tests AND is invisible to the rules is a candidate blind spot (or an equivalent mutant) to triage by hand.
Usage: mutsweep.py [--files f1,f2] [--workers N] [--out FILE]"""
import json, os, re, shutil, subprocess, sys, tempfile, time
from concurrent.futures import ThreadPoolExecutor
from threading import Lock

ENV = dict(os.environ, GOFLAGS="-mod=mod", GOPROXY="off", GOSUMDB="off", GOTOOLCHAIN="local",
           PATH="/opt/veriftools/go1.26.8/bin:" + os.environ["PATH"])

def anchored():
    m = {}
    for l in open("/verif/properties.jsonl"):
        p = json.loads(l)
        for f in p["anchors"]["files"]:
            m.setdefault(f, []).append(p["id"])
    return m

def main():
    args = sys.argv[1:]
    files = None
    workers = 12
    out = "/verif/sweeps/mutsweep.json"
    if "--files" in args: files = args[args.index("--files") + 1].split(",")
    if "--workers" in args: workers = int(args[args.index("--workers") + 1])
    if "--out" in args: out = args[args.index("--out") + 1]
    amap = anchored()
    todo = []
    for f, props in sorted(amap.items()):
        if files and f not in files: continue
        if not os.path.exists("/repo/" + f): continue
        r = subprocess.run(["/verif/bin/mutgen", "/repo/" + f, f], capture_output=True, text=True)
        for m in (json.loads(r.stdout or "[]") or []):
            m["props"] = props
            todo.append(m)
    print("mutants:", len(todo), flush=True)
    base = tempfile.mkdtemp(prefix="mutsweep-")
    pool = []
    for i in range(workers):
        d = os.path.join(base, "w%d" % i)
        subprocess.run(["cp", "-r", "/repo", d], check=True)
        shutil.rmtree(d + "/.git", ignore_errors=True)
        pool.append(d)
    lock = Lock()
    results = []
    t0 = time.time()

    def work(m):
        with lock:
            d = pool.pop()
        try:
            path = os.path.join(d, m["file"])
            src = open("/repo/" + m["file"], "rb").read()
            mut = src[:m["start"]] + m["new"].encode() + src[m["end"]:]
            open(path, "wb").write(mut)
            pkg = "./" + os.path.dirname(m["file"])
            b = subprocess.run("go build %s && go vet %s" % (pkg, pkg), shell=True, cwd=d, env=ENV, capture_output=True, text=True)
            res = dict(m)
            if b.returncode != 0:
                res["status"] = "invalid"
                return res
            caught = {}
            for prop in m["props"]:
                r = subprocess.run(["/verif/bin/coapcheck", "-property", prop, "-tier", "quick", "-repo", d, "-out", d + "/.out"], capture_output=True, text=True)
                if r.returncode != 0:
                    ks = re.findall(r"^\s+(?:violated|undecided) (\S+)", r.stdout, re.M)
                    if any(k.startswith("framework") for k in ks):
                        res["status"] = "invalid"
                        return res
                    caught[prop] = ks[:3]
            res["caught"] = caught
            if caught:
                res["status"] = "detected"
                return res
            # survivors: does the package's own test suite notice?
            t = subprocess.run("go test -count=1 -timeout 120s %s" % pkg, shell=True, cwd=d, env=ENV, capture_output=True, text=True)
            fails = set(re.findall(r"^--- FAIL: (\w+)", t.stdout, re.M)) - {"TestUDPConnWriteToAddr", "TestUDPConnWriteWithContext", "TestUDPConnwriteMulticastWithContext"}
            res["status"] = "survived-tests-fail" if (fails or ("FAIL" in t.stdout and not re.search(r"^--- FAIL", t.stdout, re.M))) and fails else ("survived-tests-pass" if not fails else "survived-tests-fail")
            res["test_fails"] = sorted(fails)[:4]
            return res
        finally:
            open(os.path.join(d, m["file"]), "wb").write(open("/repo/" + m["file"], "rb").read())
            with lock:
                pool.append(d)

    with ThreadPoolExecutor(max_workers=workers) as ex:
        for i, r in enumerate(ex.map(work, todo)):
            results.append(r)
            if (i + 1) % 200 == 0:
                print(i + 1, "done", round(time.time() - t0), "s", flush=True)
    shutil.rmtree(base, ignore_errors=True)
    summ = {}
    for r in results:
        summ[r["status"]] = summ.get(r["status"], 0) + 1
    os.makedirs(os.path.dirname(out), exist_ok=True)
    json.dump({"summary": summ, "wall_s": round(time.time() - t0), "results": results}, open(out, "w"), indent=0)
    print(summ)

if __name__ == "__main__":
    main()
